// native replay driver: real tbox::util::{Dump,Parse}ScalableInteger (compiled from /repo's working tree)
#include <tbox/util/scalable_integer.h>
#include <cstdio>
#include <cstdlib>
#include <cstring>
#include <vector>
#include <string>
using namespace tbox::util;

static std::vector<uint8_t> unhex(const char *s) {
  std::vector<uint8_t> v; size_t n = strlen(s);
  for (size_t i = 0; i + 1 < n; i += 2) { unsigned x; sscanf(s + i, "%2x", &x); v.push_back((uint8_t)x); }
  return v;
}
static uint64_t need(uint64_t v) {
  uint64_t max = 0x7f; int n = 1;
  while (n < 10 && v > max) { ++n; if (n <= 9) max += (n == 9 ? (1ULL << 63) : (1ULL << (7 * n))); }
  return n;
}
static int check_parse(const std::vector<uint8_t> &in, size_t n) {
  // exact-size heap copy so that ASan sees any read past n
  uint8_t *p = (uint8_t *)malloc(n ? n : 1); memcpy(p, in.data(), n < in.size() ? n : in.size());
  uint64_t out = 0x1234; size_t r = ParseScalableInteger(p, n, out);
  free(p);
  if (r > n || r > 10) { printf("POSTCONDITION VIOLATED: Parse returned %zu for %zu input bytes\n", r, n); return 1; }
  if (r == 0 && out != 0x1234) { printf("POSTCONDITION VIOLATED: Parse returned 0 but wrote the output\n"); return 1; }
  return 0;
}
static int check_dump(uint64_t v, size_t cap) {
  uint8_t *p = (uint8_t *)malloc(cap ? cap : 1); memset(p, 0xA5, cap ? cap : 1);
  size_t r = DumpScalableInteger(v, p, cap);
  int bad = 0;
  size_t want = need(v) <= cap ? need(v) : 0;
  if (r != want) { printf("POSTCONDITION VIOLATED: Dump(%llu, cap %zu) returned %zu, format says %zu\n", (unsigned long long)v, cap, r, want); bad = 1; }
  for (size_t i = r; i < cap && !bad; ++i) if (p[i] != 0xA5) { printf("POSTCONDITION VIOLATED: Dump wrote byte %zu beyond its result %zu\n", i, r); bad = 1; }
  if (!bad && r > 0) {
    uint64_t o = 0; size_t w = ParseScalableInteger(p, r, o);
    if (w != r || o != v) { printf("POSTCONDITION VIOLATED: Parse(Dump(%llu)) gave %llu (consumed %zu of %zu)\n", (unsigned long long)v, (unsigned long long)o, w, r); bad = 1; }
  }
  free(p);
  return bad;
}
int main(int argc, char **argv) {
  if (argc >= 4 && !strcmp(argv[1], "parse")) return check_parse(unhex(argv[3]), strtoull(argv[2], 0, 10));
  if (argc >= 4 && !strcmp(argv[1], "dump")) return check_dump(strtoull(argv[2], 0, 10), strtoull(argv[3], 0, 10));
  if (argc >= 2 && !strcmp(argv[1], "search")) {
    // boundary family: every length boundary +-1, every capacity 0..11; all-continuation inputs of every length 0..12
    uint64_t b[] = {0, 0x7f, 0x80, 16511, 16512, 2113663, 2113664, 270549119ULL, 270549120ULL, 34630287487ULL, 34630287488ULL,
                    4432676798591ULL, 4432676798592ULL, 567382630219903ULL, 567382630219904ULL, 72624976668147839ULL, 72624976668147840ULL,
                    9295997013522923647ULL, 9295997013522923648ULL, ~0ULL};
    for (uint64_t v : b) for (int d = -1; d <= 1; ++d) for (size_t cap = 0; cap <= 11; ++cap) if (check_dump(v + d, cap)) { printf("input: dump %llu %zu\n", (unsigned long long)(v + d), cap); return 1; }
    for (size_t n = 0; n <= 12; ++n) for (int last = 0; last < 2; ++last) {
      std::vector<uint8_t> in(n, 0x80); if (n && last) in[n - 1] = 0x01;
      if (check_parse(in, n)) { printf("input: parse %zu bytes of 0x80%s\n", n, last ? " ending 0x01" : ""); return 1; }
    }
    unsigned s = argc >= 3 ? atoi(argv[2]) : 1;
    for (int it = 0; it < 20000; ++it) {
      s = s * 1103515245u + 12345u; size_t n = (s >> 16) % 13; std::vector<uint8_t> in(n);
      for (auto &x : in) { s = s * 1103515245u + 12345u; x = (uint8_t)(s >> 16) | ((s >> 8) & 1 ? 0x80 : 0); }
      if (check_parse(in, n)) return 1;
      uint64_t v = ((uint64_t)s << 32) ^ (s * 2654435761u); v >>= (s >> 3) % 64;
      if (check_dump(v, (s >> 9) % 12)) return 1;
    }
    return 0;
  }
  fprintf(stderr, "usage: parse <n> <hex> | dump <v> <cap> | search [seed]\n"); return 2;
}
