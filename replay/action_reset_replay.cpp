// a reset (or stopped) composite must not deliver a finish notification that stems from the previous run
#include <tbox/flow/actions/composite_action.h>
#include <tbox/flow/actions/function_action.h>
#include <tbox/event/loop.h>
#include <cstdio>
using namespace tbox; using namespace tbox::flow;
struct Comp : public CompositeAction { Comp(event::Loop &l) : CompositeAction(l, "Comp") {} };
static void spin(event::Loop *loop, int ms) { loop->exitLoop(std::chrono::milliseconds(ms)); loop->runLoop(); }
int main() {
    auto loop = event::Loop::New();
    int bad = 0;
    {
        Comp c(*loop); int finishes = 0;
        c.setChild(new FunctionAction(*loop, [] { return true; }));
        c.setFinishCallback([&](bool, const Action::Reason &, const Action::Trace &) { ++finishes; });
        c.start();            // child runs and finishes at once: its notification is queued
        c.pause();            // paused before the notification arrives
        spin(loop, 20);       // notification arrives while paused: result held back
        c.resume();           // held-back result is re-posted to the loop
        c.reset();            // ... and the tree is reset before it runs
        spin(loop, 20);
        printf("finish notifications after reset(): %d, state %d (0 = idle)\n", finishes, (int)c.state());
        if (finishes != 0 || c.state() != Action::State::kIdle) { printf("VIOLATION: a reset action delivered a stale finish / is not idle like a fresh one\n"); bad = 1; }
    }
    delete loop;
    return bad;
}
