// native replay driver: real CalcCrc16/CalcCrc32/CalcCheckSum8/CalcCheckSum16 against bit-level references
#include <cstdio>
#include <cstdlib>
#include <cstring>
#include <cstdint>
#include <vector>
#include <tbox/util/crc.h>
#include <tbox/util/checksum.h>
using namespace tbox::util;
static uint16_t ref16(const uint8_t *p, size_t n, uint16_t c) { for (size_t i = 0; i < n; ++i) { c ^= (uint16_t)p[i] << 8; for (int k = 0; k < 8; ++k) c = (c & 0x8000) ? (c << 1) ^ 0x1021 : c << 1; } return c; }
static uint32_t ref32(const uint8_t *p, size_t n, uint32_t c) { for (size_t i = 0; i < n; ++i) { c ^= p[i]; for (int k = 0; k < 8; ++k) c = (c & 1) ? (c >> 1) ^ 0xEDB88320u : c >> 1; } return ~c; }
static uint8_t refck8(const uint8_t *p, size_t n) { uint64_t s = 0; for (size_t i = 0; i < n; ++i) s += p[i]; while (s >> 8) s = (s & 0xff) + (s >> 8); return ~(uint8_t)s; }
static uint16_t refck16(const uint8_t *p, size_t n) { uint64_t s = 0; for (size_t i = 0; i < n; ++i) s += (i & 1) ? p[i] : (uint64_t)p[i] << 8; while (s >> 16) s = (s & 0xffff) + (s >> 16); return ~(uint16_t)s; }
static int check(const std::vector<uint8_t> &v) {
  uint8_t *p = (uint8_t *)malloc(v.size() ? v.size() : 1); if (v.size()) memcpy(p, v.data(), v.size()); size_t n = v.size(); int bad = 0;
  if (CalcCrc16(p, n, 0xffff) != ref16(p, n, 0xffff)) { printf("VIOLATION: CalcCrc16 != CRC-16/CCITT reference (len %zu)\n", n); bad = 1; }
  if (CalcCrc32(p, n, 0xffffffff) != ref32(p, n, 0xffffffff)) { printf("VIOLATION: CalcCrc32 != CRC-32 reference (len %zu)\n", n); bad = 1; }
  if (CalcCheckSum8(p, n) != refck8(p, n)) { printf("VIOLATION: CalcCheckSum8 != one's-complement sum (len %zu)\n", n); bad = 1; }
  if (CalcCheckSum16(p, n) != refck16(p, n)) { printf("VIOLATION: CalcCheckSum16 != RFC 1071 sum (len %zu)\n", n); bad = 1; }
  free(p); return bad;
}
int main(int argc, char **argv) {
  unsigned s = argc >= 3 ? atoi(argv[2]) : 1;
  for (size_t n = 0; n <= 2100; n += (n < 40 ? 1 : 97)) for (int pat = 0; pat < 4; ++pat) {
    std::vector<uint8_t> v(n); for (size_t i = 0; i < n; ++i) v[i] = pat == 0 ? 0xff : pat == 1 ? 0 : pat == 2 ? (uint8_t)(i * 131 + 7) : 0x80;
    if (check(v)) { printf("input: %zu bytes, pattern %d\n", n, pat); return 1; }
  }
  for (int it = 0; it < 2000; ++it) { s = s * 1103515245u + 12345u; std::vector<uint8_t> v((s >> 16) % 600); for (auto &x : v) { s = s * 1103515245u + 12345u; x = s >> 16; } if (check(v)) return 1; }
  return 0;
}
