// native replay driver for alarm::Alarm and the calculateNextLocalTimeSec() of Oneshot/Weekly/Workday alarms.
#include <cstdio>
#include <cstdlib>
#include <cstring>
#include <cstdint>
#include <string>
#include <sys/time.h>
#include <tbox/event/loop.h>
#include <tbox/event/timer_event_impl.h>
#include <tbox/alarm/alarm.h>
#include <tbox/alarm/oneshot_alarm.h>
#include <tbox/alarm/weekly_alarm.h>
using namespace tbox; using namespace tbox::alarm;

struct FarAlarm : public Alarm {       // next instant `dist` seconds after the start
  uint32_t dist; int calls = 0;
  FarAlarm(event::Loop *l, uint32_t d) : Alarm(l), dist(d) { state_ = State::kInited; }
  bool calculateNextLocalTimeSec(uint32_t curr, uint32_t &next) override { ++calls; next = curr + dist; return true; }
};
static int check_delay(uint32_t dist) {
  event::Loop *loop = event::Loop::New(); int bad = 0;
  { FarAlarm a(loop, dist); a.setTimezone(0);
    struct timeval tv; gettimeofday(&tv, 0);
    if (!a.enable()) { printf("enable failed\n"); return 2; }
    auto *impl = static_cast<event::TimerEventImpl *>(a.sp_timer_ev_);
    long long armed_ms = impl->interval_.count();
    long long need_ms = (long long)(a.target_utc_sec_ - (uint32_t)tv.tv_sec) * 1000 - 1500;   // 1.5 s slack for the two clock reads
    if (armed_ms < need_ms) { printf("VIOLATION: instant %u s ahead, but the timer was armed for %lld ms (needs >= %lld ms): it fires early\n", dist, armed_ms, need_ms); bad = 1; }
    a.disable(); }
  delete loop; return bad;
}
static int check_disable_in_callback() {
  event::Loop *loop = event::Loop::New(); int bad = 0;
  { FarAlarm a(loop, 3600); a.setTimezone(0); int fired = 0;
    a.setCallback([&] { ++fired; a.disable(); });
    a.enable();
    a.sp_timer_ev_->disable();       // the one-shot timer has just fired
    a.onTimeExpired();
    auto *impl = static_cast<event::TimerEventImpl *>(a.sp_timer_ev_);
    if (a.isEnabled() || impl->isEnabled()) { printf("VIOLATION: the callback disabled the alarm, but after onTimeExpired() it is %s and its timer is %s: a disabled alarm fires again\n", a.isEnabled() ? "enabled" : "disabled", impl->isEnabled() ? "armed" : "idle"); bad = 1; }
    if (a.isEnabled()) a.disable(); }
  delete loop; return bad;
}
struct Probe1 : public OneshotAlarm { using OneshotAlarm::OneshotAlarm; using OneshotAlarm::calculateNextLocalTimeSec; };
struct ProbeW : public WeeklyAlarm { using WeeklyAlarm::WeeklyAlarm; using WeeklyAlarm::calculateNextLocalTimeSec; };
static int check_next() {
  event::Loop *loop = event::Loop::New(); int bad = 0;
  { Probe1 o(loop); ProbeW w(loop);
    for (int sod : {0, 1, 3599, 43200, 86399}) {
      o.initialize(sod);
      for (uint32_t base : {0u, 86400u * 3, 86400u * 19000 + 5}) for (int d = -2; d <= 2 && !bad; ++d) {
        uint32_t curr = base + sod + d; if ((int64_t)base + sod + d < 0) continue; uint32_t next = 0;
        if (!o.calculateNextLocalTimeSec(curr, next) || next <= curr || next - curr > 86400 || next % 86400 != (uint32_t)sod) {
          printf("VIOLATION: OneshotAlarm(%d s of day): next instant for t=%u is %u (must be the earliest instant > t at that time of day)\n", sod, curr, next); bad = 1; } }
      for (const char *mask : {"1111111", "1000000", "0000001", "0101010"}) {
        w.initialize(sod, mask);
        for (uint32_t day = 0; day < 15 && !bad; ++day) for (int d = -1; d <= 1 && !bad; ++d) {
          if (day == 0 && sod + d < 0) continue; uint32_t curr = day * 86400u + sod + d, next = 0;
          bool ok = w.calculateNextLocalTimeSec(curr, next);
          // reference: scan forward day by day
          uint32_t ref = 0; bool found = false;
          for (uint32_t k = 0; k < 9 && !found; ++k) { uint32_t cand = (curr / 86400 + k) * 86400u + sod; int wd = ((cand / 86400) + 4) % 7; if (cand > curr && mask[wd] == '1') { ref = cand; found = true; } }
          if (ok != found || (ok && next != ref)) { printf("VIOLATION: WeeklyAlarm(%d, %s): next instant for t=%u is %u, reference %u\n", sod, mask, curr, next, ref); bad = 1; } } } } }
  delete loop; return bad;
}
int main(int argc, char **argv) {
  if (argc >= 3 && !strcmp(argv[1], "delay")) return check_delay(strtoul(argv[2], 0, 10));
  if (check_next()) return 1;
  if (check_disable_in_callback()) { printf("input: disable() from the alarm's own callback\n"); return 1; }
  for (uint32_t d : {1u, 59u, 86400u, 86400u * 49, 86400u * 50, 86400u * 200, 86400u * 366}) if (check_delay(d)) { printf("input: delay %u\n", d); return 1; }
  return 0;
}
