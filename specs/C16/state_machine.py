"""C16 — flow::StateMachine::Impl (modules/flow/state_machine.cpp): one machine level under contract; the nested machine is seen
through its own (child-view) contracts, which is the same contract one level down.

 run    rejected (not running, or called from inside one of the machine's own actions: cb_level_ != 0): false, no action, no change.
        active sub-machine: the event goes to it; unless it has terminated its answer is returned and this level does nothing; a
        terminated sub-machine is stopped and this level goes on.
        target selection: the state's event handler (per-event, else default) may pick the target; otherwise the FIRST route in
        registration order whose event matches (or is the wildcard) and whose guard - if any - holds; guards are evaluated only for
        routes whose event matches, in order, at most once each, wildcard routes included; no such route: false, nothing happens.
        unknown target (not TERM): false, nothing happens.
        transition: exit action of the old state, route action, enter action of the new state, state-changed notification (old id,
        new id), start + run of the new state's sub-machine - in exactly that order, each exactly once when present; afterwards
        last/current/next state are old / new / none.
        cb_level_ is back to its entry value on EVERY path (the re-entrancy guard never sticks).
 start  only from idle and outside actions; enters the initial state (enter action once), then starts its sub-machine.
 stop   only when running and outside actions; stops the active sub-machine FIRST [fixed 47b74a7], then exits the current state once;
        afterwards not running, no current state.
Routes are a vector of at most 8 entries here (bounded domain; loops under contract).
"""
import os
from verif import UnitSpec, Target
from plugins import StdFunction, StdVector, Sync, Chrono, StringStreamSink, Syscalls, OpaqueString, OpaqueTypes
TU = 'modules/flow/state_machine.cpp'
C = 'tbox::flow::StateMachine::Impl::'
P = 'flow_StateMachine_Impl_'
R = {P + 'run': 'SM_run', P + 'start': 'SM_start', P + 'stop': 'SM_stop', P + 'findState': 'SM_findState', P + 'isTerminated': 'SM_isTerminated',
     'flow_Event_ctor__Ktbox_flow_Eventr': 'Event_copy', 'flow_Event_ctor__void': 'Event_ctor'}
PRELUDE = r'''
typedef struct flow_StateMachine_Impl SM; typedef struct flow_StateMachine_Impl_State State; typedef struct flow_StateMachine_Impl_Route Route; typedef struct flow_Event Event;
#define T(x) ((x) != 0)
#define SM_term_state flow_StateMachine_Impl__term_state_
static SM *g_sm; static State *g_cur0, *g_next; static int g_ev;
static int g_phase;                       /* 0 nothing yet, 1 exit done, 2 route action done, 3 enter done, 4 notified, 5 sub started, 6 sub ran */
static size_t g_exit_calls, g_ract_calls, g_enter_calls, g_changed_calls, g_handler_calls, g_child_runs, g_child_starts, g_child_stops, g_guard_calls;
static _Bool g_sub_term, g_child_ret, g_in_evmap; static int g_handler_ret; static struct v_function *g_evfunc;
static size_t g_r, g_i, g_last_guard; static int g_ract_target, g_cb_entry;
#define NOFIRE(rt) (((rt)->event_id != 0 && (rt)->event_id != g_ev) || T((rt)->guard.engaged))
#define TRANS (g_lookups == 1 && (g_found != 0 || g_looked_up == 0))
#define FIRES(rt) (((rt)->event_id == 0 || (rt)->event_id == g_ev))
'''
EXTERN = r'''
/* ---- the nested machine, one level down (child view of the same contracts) ---- */
_Bool SM_run__child(SM *sub, Event ev)
__CPROVER_requires(ev.id == g_ev && ((g_phase == 0 && sub == g_cur0->sub_sm) || (g_phase == 5 && sub == g_next->sub_sm)))
__CPROVER_assigns(g_child_runs, g_phase)
__CPROVER_ensures(g_child_runs == __CPROVER_old(g_child_runs) + 1 && T(__CPROVER_return_value) == T(g_child_ret) && g_phase == (__CPROVER_old(g_phase) == 5 ? 6 : 0))
;
_Bool SM_start__child(SM *sub)
__CPROVER_requires(g_phase <= 4 && sub == g_next->sub_sm && g_sm->curr_state_ == g_next && g_enter_calls == (T(g_next->enter_action.engaged) ? 1 : 0) && g_changed_calls == (T(g_sm->state_changed_cb_.engaged) ? 1 : 0))   /* the new state's machine starts after enter + notification */
__CPROVER_assigns(g_child_starts, g_phase)
__CPROVER_ensures(g_child_starts == __CPROVER_old(g_child_starts) + 1 && g_phase == 5)
;
void SM_stop__child(SM *sub)
__CPROVER_requires(g_phase == 0 && sub == g_cur0->sub_sm)
__CPROVER_assigns(g_child_stops)
__CPROVER_ensures(g_child_stops == __CPROVER_old(g_child_stops) + 1)
;
_Bool SM_isTerminated__child(SM *sub)
__CPROVER_requires(sub == g_cur0->sub_sm && g_child_runs == 1)
__CPROVER_assigns()
__CPROVER_ensures(T(__CPROVER_return_value) == T(g_sub_term))
;
State *SM_findState(SM *self, int state_id)
__CPROVER_requires(self == g_sm)
__CPROVER_requires(g_lookups == 0 && g_phase == 0 && self->cb_level_ == g_cb_entry)
__CPROVER_assigns(g_looked_up, g_lookups)
__CPROVER_ensures(g_looked_up == state_id && g_lookups == 1 && __CPROVER_return_value == g_found)
;
long v_evmap__find(struct v_evmap *m, int id)
__CPROVER_requires(m == &g_cur0->events && id == g_ev)
__CPROVER_assigns()
__CPROVER_ensures((__CPROVER_return_value != 0) == T(g_in_evmap))
;
long v_evmap__end(struct v_evmap *m)
__CPROVER_assigns()
__CPROVER_ensures(__CPROVER_return_value == 0)
;
struct v_function *v_map_it_second(long it)
__CPROVER_requires(it != 0)
__CPROVER_assigns()
__CPROVER_ensures(__CPROVER_return_value == g_evfunc)
;
/* ---- user callbacks; every one of them runs with the re-entrancy guard raised ---- */
int v_fn_call__int_tbox_flow_Event(struct v_function *f, Event ev)                      /* event handler: may pick the target */
__CPROVER_requires(g_sm->cb_level_ >= 1 && ev.id == g_ev && g_phase == 0 && g_handler_calls == 0 && g_guard_calls == 0)
__CPROVER_requires(T(g_in_evmap) ? f == g_evfunc : (f == &g_cur0->default_event && T(f->engaged)))      /* per-event handler first, else the default one */
__CPROVER_assigns(g_handler_calls)
__CPROVER_ensures(g_handler_calls == 1 && __CPROVER_return_value == g_handler_ret)
;
_Bool v_fn_call__bool_tbox_flow_Event(struct v_function *f, Event ev)                   /* guard of route g_i */
__CPROVER_requires(g_sm->cb_level_ >= 1 && ev.id == g_ev && g_phase == 0 && T(f->engaged))
__CPROVER_requires(g_i < g_cur0->routes.size && f == &g_cur0->routes.data[g_i].guard && FIRES(&g_cur0->routes.data[g_i]))      /* only for routes whose event matches */
__CPROVER_requires(g_guard_calls == 0 || g_i > g_last_guard)                                                                    /* in order, at most once each */
__CPROVER_assigns(g_guard_calls, g_last_guard)
__CPROVER_ensures(g_guard_calls == __CPROVER_old(g_guard_calls) + 1 && g_last_guard == g_i && T(__CPROVER_return_value) == (g_i == g_r))
;
void v_fn_call__void_tbox_flow_Event(struct v_function *f, Event ev)                   /* exit / route / enter action */
__CPROVER_requires(g_sm->cb_level_ >= 1 && T(f->engaged) && ev.id == g_ev)
__CPROVER_requires((f == &g_cur0->exit_action && g_phase == 0) || (f != &g_cur0->exit_action && f != &g_next->enter_action && g_phase <= 1 && g_ract_calls == 0 && g_sm->curr_state_ == 0 && g_sm->last_state_ == g_cur0) ||
                   (f == &g_next->enter_action && g_phase <= 2 && g_sm->curr_state_ == g_next && g_sm->next_state_ == 0))
__CPROVER_assigns(g_phase, g_exit_calls, g_ract_calls, g_enter_calls)
__CPROVER_ensures(g_phase == (f == &g_cur0->exit_action ? 1 : (f == &g_next->enter_action ? 3 : 2)))
__CPROVER_ensures(g_exit_calls == __CPROVER_old(g_exit_calls) + (f == &g_cur0->exit_action ? 1 : 0) && g_enter_calls == __CPROVER_old(g_enter_calls) + (f == &g_next->enter_action ? 1 : 0))
__CPROVER_ensures(g_ract_calls == __CPROVER_old(g_ract_calls) + ((f != &g_cur0->exit_action && f != &g_next->enter_action) ? 1 : 0))
;
void v_fn_call__void_int_int_tbox_flow_Event(struct v_function *f, int from, int to, Event ev)        /* state-changed notification */
__CPROVER_requires(g_sm->cb_level_ >= 1 && f == &g_sm->state_changed_cb_ && T(f->engaged) && g_phase <= 3 && g_changed_calls == 0 && from == g_cur0->id && to == g_next->id && ev.id == g_ev)
__CPROVER_requires(g_enter_calls == (T(g_next->enter_action.engaged) ? 1 : 0))
__CPROVER_assigns(g_phase, g_changed_calls)
__CPROVER_ensures(g_phase == 4 && g_changed_calls == 1)
;
'''
FRESH = r'''
__CPROVER_requires(__CPROVER_is_fresh(self, sizeof(*self)) && (self->is_running_ == 0 || self->is_running_ == 1) && self->cb_level_ >= 0 && self->cb_level_ < 1000)
__CPROVER_requires(T(self->is_running_) ==> (__CPROVER_is_fresh(self->curr_state_, sizeof(State)) && self->curr_state_->routes.size < 9 &&
                   __CPROVER_is_fresh(self->curr_state_->routes.data, (self->curr_state_->routes.size ? self->curr_state_->routes.size : 1) * sizeof(Route)) && self->curr_state_->id != 0))
'''
SPEC = {
    ('prelude',): PRELUDE + 'static int g_looked_up; static State *g_found; static size_t g_lookups;\n', ('after_protos',): EXTERN,
    ('stub', 'SM_findState'): True,
    ('call_as', 'SM_run', 'SM_run'): 'SM_run__child', ('call_as', 'SM_run', 'SM_start'): 'SM_start__child', ('call_as', 'SM_run', 'SM_stop'): 'SM_stop__child', ('call_as', 'SM_run', 'SM_isTerminated'): 'SM_isTerminated__child',
    ('contract', 'SM_run'): FRESH + r'''
__CPROVER_requires(g_found == 0 || g_found == &SM_term_state || __CPROVER_is_fresh(g_found, sizeof(State)))
__CPROVER_requires(SM_term_state.id == 0 && !T(SM_term_state.enter_action.engaged) && SM_term_state.sub_sm == 0)
__CPROVER_requires((g_sub_term == 0 || g_sub_term == 1) && (g_child_ret == 0 || g_child_ret == 1) && (g_in_evmap == 0 || g_in_evmap == 1))
__CPROVER_requires(T(g_in_evmap) ==> (__CPROVER_is_fresh(g_evfunc, sizeof(struct v_function)) && T(g_evfunc->engaged)))
__CPROVER_requires(T(self->is_running_) ==> (g_r <= self->curr_state_->routes.size && (g_r < self->curr_state_->routes.size ==> (self->curr_state_->routes.data[g_r].event_id == 0 || self->curr_state_->routes.data[g_r].event_id == event.id))))
__CPROVER_assigns(g_sm, g_cur0, g_next, g_ev, g_phase, g_exit_calls, g_ract_calls, g_enter_calls, g_changed_calls, g_handler_calls, g_child_runs, g_child_starts, g_child_stops, g_guard_calls, g_i, g_last_guard,
                  g_ract_target, g_looked_up, g_lookups, g_cb_entry, self->cb_level_, self->last_state_, self->curr_state_, self->next_state_)
__CPROVER_ensures(self->cb_level_ == __CPROVER_old(self->cb_level_))                                                           /* the guard never sticks */
__CPROVER_ensures((!T(__CPROVER_old(self->is_running_)) || __CPROVER_old(self->cb_level_) != 0) ==> (!T(__CPROVER_return_value) && g_phase == 0 && g_handler_calls == 0 && g_guard_calls == 0 && g_child_runs == 0 &&
                  self->curr_state_ == __CPROVER_old(self->curr_state_)))                                                       /* rejected calls change nothing */
__CPROVER_ensures(TRANS ==> (T(__CPROVER_return_value) && self->last_state_ == g_cur0 && self->curr_state_ == g_next && self->next_state_ == 0))
__CPROVER_ensures(TRANS ==> (g_exit_calls == (T(g_cur0->exit_action.engaged) ? 1 : 0) && g_enter_calls == (T(g_next->enter_action.engaged) ? 1 : 0) &&
                  g_changed_calls == (T(self->state_changed_cb_.engaged) ? 1 : 0) && g_child_starts == (g_next->sub_sm != 0 ? 1 : 0) && T(__CPROVER_return_value)))
__CPROVER_ensures(!TRANS ==> (g_phase == 0 && self->curr_state_ == __CPROVER_old(self->curr_state_) && g_exit_calls == 0 && g_enter_calls == 0 && g_ract_calls == 0 && g_changed_calls == 0 && g_child_starts == 0))
__CPROVER_ensures((g_lookups == 1 && !TRANS) ==> !T(__CPROVER_return_value))                                                  /* unknown target: false */
__CPROVER_ensures((g_lookups == 1 && g_handler_calls == 1 && g_handler_ret != -1) ==> g_looked_up == g_handler_ret)           /* the handler's pick is the target */
__CPROVER_ensures((g_lookups == 1 && (g_handler_calls == 0 || g_handler_ret == -1)) ==> (g_r < g_cur0->routes.size && g_looked_up == g_cur0->routes.data[g_r].next_state_id))    /* else the first route that fires */
__CPROVER_ensures((g_lookups == 0 && g_child_runs == 0 && T(__CPROVER_old(self->is_running_)) && __CPROVER_old(self->cb_level_) == 0) ==> (g_r == g_cur0->routes.size && !T(__CPROVER_return_value)))       /* no route fires: false */
''',
    ('ghost', 'SM_run', 'entry'): 'g_sm = self; g_cur0 = self->curr_state_; g_ev = event.id; g_phase = 0; g_exit_calls = 0; g_ract_calls = 0; g_enter_calls = 0; g_changed_calls = 0; g_handler_calls = 0; '
                                  'g_child_runs = 0; g_child_starts = 0; g_child_stops = 0; g_guard_calls = 0; g_lookups = 0; g_cb_entry = self->cb_level_; g_next = g_found == 0 ? &SM_term_state : g_found;',
    ('ghost', 'SM_run', 'after_call:v_function_assign:1'): None,
    ('ghost', 'SM_run__find_if0', 'iter'): 'g_i = i; if (i < g_r) __CPROVER_assume(NOFIRE(&first[i]));     /* the universally quantified precondition "no route before g_r fires", instantiated at the index visited */',
    ('loop', 'SM_run__find_if0', 1): r'''
__CPROVER_assigns(i, g_i, g_guard_calls, g_last_guard)
__CPROVER_loop_invariant(i <= n && i <= g_r && (g_guard_calls == 0 || g_last_guard < i))
__CPROVER_decreases(n - i)
''',
}
del SPEC[('ghost', 'SM_run', 'after_call:v_function_assign:1')]
H = lambda body: '\nvoid H(void)\n{\n' + body + '\n  __CPROVER_assert(0, "VACUITY-CANARY");\n}\n'
def COMMON(): return dict(tu=TU, filter='tbox::flow', rename=R, spec=SPEC,
    plugins=[StdFunction(), StdVector(), Sync(), Chrono(abstract_time=True), StringStreamSink(), Syscalls(), OpaqueString(),
             OpaqueTypes({r'^std::map<.*State \*>$': 'v_statemap', r'^std::map<.*>$': 'v_evmap', r'^std::_Rb_tree_(const_)?iterator<.*>$': 'long:v_map_it'})],
    model_headers=['fn_model.h', 'vec_model.h', 'sync_model.h', 'misc_model.h'])
ST = ['SM_run__child', 'SM_start__child', 'SM_stop__child', 'SM_isTerminated__child', 'SM_findState', 'v_evmap__find', 'v_evmap__end', 'v_map_it_second',
      'v_fn_call__int_tbox_flow_Event', 'v_fn_call__bool_tbox_flow_Event', 'v_fn_call__void_tbox_flow_Event', 'v_fn_call__void_int_int_tbox_flow_Event']
EXTERN_L = r'''
_Bool SM_isTerminated__child(SM *sub)
__CPROVER_requires(sub == g_cur0->sub_sm)
__CPROVER_assigns()
__CPROVER_ensures(T(__CPROVER_return_value) == T(g_sub_term))
;
void SM_stop__child(SM *sub)
__CPROVER_requires(sub == g_cur0->sub_sm && g_exit_calls == 0)                         /* inner machine first: its states exit before the enclosing state does */
__CPROVER_assigns(g_child_stops)
__CPROVER_ensures(g_child_stops == __CPROVER_old(g_child_stops) + 1)
;
_Bool SM_start__child(SM *sub)
__CPROVER_requires(sub == g_sm->curr_state_->sub_sm && g_sm->curr_state_ == g_found && g_enter_calls == (T(g_found->enter_action.engaged) ? 1 : 0))
__CPROVER_assigns(g_child_starts)
__CPROVER_ensures(g_child_starts == __CPROVER_old(g_child_starts) + 1)
;
State *SM_findState(SM *self, int state_id)
__CPROVER_requires(self == g_sm && state_id == self->init_state_id_)
__CPROVER_assigns()
__CPROVER_ensures(__CPROVER_return_value == g_found)
;
void v_fn_call__void_tbox_flow_Event(struct v_function *f, Event ev)
__CPROVER_requires(g_sm->cb_level_ >= 1 && T(f->engaged))
__CPROVER_requires((T(g_stopping) && f == &g_cur0->exit_action && g_exit_calls == 0 && g_child_stops == (g_cur0->sub_sm != 0 ? 1 : 0)) || (!T(g_stopping) && f == &g_found->enter_action && g_enter_calls == 0 && T(g_sm->is_running_) && g_sm->curr_state_ == g_found))
__CPROVER_assigns(g_exit_calls, g_enter_calls)
__CPROVER_ensures(g_exit_calls == __CPROVER_old(g_exit_calls) + (T(g_stopping) ? 1 : 0) && g_enter_calls == __CPROVER_old(g_enter_calls) + (T(g_stopping) ? 0 : 1))
;
'''
SPEC_L = {
    ('prelude',): PRELUDE + 'static State *g_found; static _Bool g_stopping;\n', ('after_protos',): EXTERN_L, ('stub', 'SM_findState'): True,
    ('call_as', 'SM_stop', 'SM_stop'): 'SM_stop__child', ('call_as', 'SM_start', 'SM_start'): 'SM_start__child', ('call_as', 'SM_stop', 'SM_isTerminated'): 'SM_isTerminated__child',
    ('contract', 'SM_stop'): r'''
__CPROVER_requires(__CPROVER_is_fresh(self, sizeof(*self)) && (self->is_running_ == 0 || self->is_running_ == 1) && self->cb_level_ >= 0 && self->cb_level_ < 1000)
__CPROVER_requires(T(self->is_running_) ==> (__CPROVER_is_fresh(self->curr_state_, sizeof(State)) && (self->curr_state_->sub_sm == 0 || __CPROVER_is_fresh(self->curr_state_->sub_sm, sizeof(SM)))))
__CPROVER_assigns(g_sm, g_cur0, g_stopping, g_exit_calls, g_enter_calls, g_child_stops, self->cb_level_, self->curr_state_, self->is_running_)
__CPROVER_ensures(self->cb_level_ == __CPROVER_old(self->cb_level_))
__CPROVER_ensures((T(__CPROVER_old(self->is_running_)) && __CPROVER_old(self->cb_level_) == 0) ==> (!T(self->is_running_) && self->curr_state_ == 0 &&
                  g_exit_calls == (T(g_cur0->exit_action.engaged) ? 1 : 0) && g_child_stops == (g_cur0->sub_sm != 0 ? 1 : 0)))         /* every level exits: inner machine stopped, then this state's exit action */
__CPROVER_ensures((!T(__CPROVER_old(self->is_running_)) || __CPROVER_old(self->cb_level_) != 0) ==> (g_exit_calls == 0 && g_child_stops == 0 && T(self->is_running_) == T(__CPROVER_old(self->is_running_)) && self->curr_state_ == __CPROVER_old(self->curr_state_)))
''',
    ('ghost', 'SM_stop', 'entry'): 'g_sm = self; g_cur0 = self->curr_state_; g_stopping = 1; g_exit_calls = 0; g_enter_calls = 0; g_child_stops = 0;',
    ('contract', 'SM_start'): r'''
__CPROVER_requires(__CPROVER_is_fresh(self, sizeof(*self)) && (self->is_running_ == 0 || self->is_running_ == 1) && self->cb_level_ >= 0 && self->cb_level_ < 1000)
__CPROVER_requires(g_found == 0 || __CPROVER_is_fresh(g_found, sizeof(State)))
__CPROVER_assigns(g_sm, g_stopping, g_exit_calls, g_enter_calls, g_child_starts, self->cb_level_, self->curr_state_, self->is_running_)
__CPROVER_ensures(self->cb_level_ == __CPROVER_old(self->cb_level_))
__CPROVER_ensures(T(__CPROVER_return_value) == (!T(__CPROVER_old(self->is_running_)) && __CPROVER_old(self->cb_level_) == 0 && g_found != 0))
__CPROVER_ensures(T(__CPROVER_return_value) ==> (T(self->is_running_) && self->curr_state_ == g_found && g_enter_calls == (T(g_found->enter_action.engaged) ? 1 : 0) && g_child_starts == (g_found->sub_sm != 0 ? 1 : 0)))
__CPROVER_ensures(!T(__CPROVER_return_value) ==> (g_enter_calls == 0 && g_child_starts == 0 && T(self->is_running_) == T(__CPROVER_old(self->is_running_)) && self->curr_state_ == __CPROVER_old(self->curr_state_)))
''',
    ('contract', 'SM_isTerminated'): r'''
__CPROVER_requires(__CPROVER_is_fresh(self, sizeof(*self)) && (self->curr_state_ == 0 || __CPROVER_is_fresh(self->curr_state_, sizeof(State))))
__CPROVER_assigns()
__CPROVER_ensures(T(__CPROVER_return_value) == (self->curr_state_ != 0 && self->curr_state_->id == 0))        /* terminated == sitting in the state whose id is TERM (0), whoever registered it */
''',
    ('ghost', 'SM_start', 'entry'): 'g_sm = self; g_stopping = 0; g_exit_calls = 0; g_enter_calls = 0; g_child_starts = 0;',
}
UNITS = [UnitSpec(name='state_machine', emit=[C + 'run'], targets=[
    Target('run', H('  SM *m; Event e; SM_run(m, e);'), enforce='SM_run', replace=ST, timeout=600, bound='at most 8 routes per state (loops under contract)',
           clause='run: rejection, delegation to the sub-machine, handler-then-first-matching-route selection with guards evaluated in order, exit -> route -> enter -> notify -> sub start/run exactly once each, cb_level_ restored on every path'),
], **COMMON()),
  UnitSpec(name='state_machine_life', emit=[C + 'start', C + 'stop', C + 'isTerminated'], targets=[
    Target('isTerminated', H('  SM *m; SM_isTerminated(m);'), enforce='SM_isTerminated', clause='terminated iff the current state has the terminal id'),
    Target('stop', H('  SM *m; SM_stop(m);'), enforce='SM_stop', replace=['SM_stop__child', 'SM_isTerminated__child', 'v_fn_call__void_tbox_flow_Event'], timeout=300,
           clause='stop: rejected when idle or inside an action; otherwise the active sub-machine is stopped first, then the current state exits once; idle afterwards'),
    Target('start', H('  SM *m; SM_start(m);'), enforce='SM_start', replace=['SM_start__child', 'SM_findState', 'v_fn_call__void_tbox_flow_Event'], timeout=300,
           clause='start: only from idle and outside actions; initial state entered once, then its sub-machine started'),
  ], **dict(COMMON(), spec=SPEC_L))]

REPLAY_SOURCES = ['modules/flow/state_machine.cpp']
def native_replay(u, t, o, w, workdir):
    import replay as rp
    L = '/repo/_build/modules'
    libs = ['%s/event/libtbox_event.a' % L, '%s/util/libtbox_util.a' % L, '%s/base/libtbox_base.a' % L, '-I/repo/_build/include', '-ldl']
    return rp.attempt('state_machine', REPLAY_SOURCES, os.path.join(workdir, 'replay'), [('scenario', [])], extra=libs)
