// A burst of deliveries of one signal queued in the loop's pipe before the loop drains it: one callback per delivery on the enabled event.
#include <tbox/event/loop.h>
#include <tbox/event/signal_event.h>
#include <csignal>
#include <cstdio>
#include <string>
using namespace tbox::event;
int main(int argc, char **argv) {
    std::string engine = argc > 1 ? argv[1] : "epoll";
    int bad = 0;
    const int bursts[] = {1, 2, 3, 5, 10, 11, 25};
    for (int n : bursts) {
        Loop *loop = Loop::New(engine.c_str());
        if (!loop) { printf("no %s engine\n", engine.c_str()); return 0; }
        SignalEvent *ev = loop->newSignalEvent();
        int calls = 0;
        ev->initialize(SIGUSR1, Event::Mode::kPersist);
        ev->setCallback([&](int) { ++calls; });
        ev->enable();
        for (int i = 0; i < n; ++i) raise(SIGUSR1);          // delivered one at a time, synchronously: nothing is merged by the kernel
        loop->exitLoop(std::chrono::milliseconds(100));
        loop->runLoop();
        delete ev; delete loop;
        printf("burst of %d deliveries: %d callbacks\n", n, calls);
        if (calls != n) { printf("VIOLATION: %d deliveries of the signal produced %d callbacks on the enabled event\n", n, calls); bad = 1; }
    }
    return bad;
}
