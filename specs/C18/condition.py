"""C18 — coroutine Condition<int> / Broadcast (modules/coroutine/condition.hpp, broadcast.hpp, instantiated by drivers/coroutine_tu.cpp).

Condition: the std::set of outstanding conditions is abstract - ghost g_n (its size) and g_has (whether the value being posted is in it).
 post(v)   v outstanding: it is consumed (kAll) / all are (kAny) WHETHER OR NOT a routine waits yet; when that satisfies the condition the
           waiting routine - if there is one - is resumed, exactly once, with its own token, and the wait token is cleared.  v not
           outstanding, or kAll with others still outstanding: nobody is resumed, the wait token stays.
 wait()    refuses (false, no suspension) when a routine already waits or nothing is outstanding (= already satisfied); otherwise records
           the caller's token BEFORE suspending, clears the set afterwards and answers "not cancelled".
Broadcast: wait() queues the caller's token before suspending; post() resumes EVERY queued token exactly once, in order, and empties the queue.
"""
import os
from verif import UnitSpec, Target
from plugins import StdFunction, StdVector, OpaqueString, OpaqueTypes
TU = '/verif/drivers/coroutine_tu.cpp'
N = 'tbox::coroutine::'
R = {'coroutine_Condition_int__post': 'Cond_post', 'coroutine_Condition_int__wait': 'Cond_wait', 'coroutine_Condition_int__add': 'Cond_add', 'coroutine_Broadcast_wait': 'Bc_wait', 'coroutine_Broadcast_post': 'Bc_post',
     'coroutine_Scheduler_wait': 'Sch_wait', 'coroutine_Scheduler_resume': 'Sch_resume', 'coroutine_Scheduler_getToken': 'Sch_getToken', 'coroutine_Scheduler_isCanceled': 'Sch_isCanceled',
     'cabinet_Token_ctor__Ktbox_cabinet_Tokenr': 'Token_copy'}
EARLY = 'struct v_Sched { char opaque; };\n'
PRELUDE = r'''
struct coroutine_Condition_int_; struct coroutine_Broadcast; typedef struct coroutine_Condition_int_ Cond; typedef struct coroutine_Broadcast Bc; typedef struct cabinet_Token Token;
#define T(x) ((x) != 0)
#define K_ALL coroutine_Condition_int__Logic_kAll
static Token g_me, g_waiter;                    /* the calling routine / the routine recorded as waiting */
static Cond *g_c; static Bc *g_b;
static int g_key; static size_t g_n; static _Bool g_has;      /* abstract std::set: size, membership of the posted value */
static size_t g_resume_calls, g_waits; static _Bool g_resumed_waiter, g_cancelled, g_recorded;
#define SET_OK (g_n < 1000000 && (g_has == 0 || g_has == 1) && (T(g_has) ==> g_n >= 1))
#define NULLTOK(t) ((t).id_ == 0)
'''
SETSTUBS = r'''
long v_set__find(struct v_set *s, int v) __CPROVER_requires(s == &g_c->conds_ && v == g_key) __CPROVER_assigns() __CPROVER_ensures((__CPROVER_return_value != 0) == T(g_has));
long v_set__end(struct v_set *s) __CPROVER_assigns() __CPROVER_ensures(__CPROVER_return_value == 0);
size_t v_set__erase(struct v_set *s, int v) __CPROVER_requires(s == &g_c->conds_ && v == g_key) __CPROVER_assigns(g_n, g_has)
  __CPROVER_ensures(g_n == __CPROVER_old(g_n) - (T(__CPROVER_old(g_has)) ? 1 : 0) && !T(g_has));
_Bool v_set__empty(struct v_set *s) __CPROVER_requires(s == &g_c->conds_) __CPROVER_assigns() __CPROVER_ensures(T(__CPROVER_return_value) == (g_n == 0));
void v_set__clear(struct v_set *s) __CPROVER_requires(s == &g_c->conds_) __CPROVER_assigns(g_n, g_has) __CPROVER_ensures(g_n == 0 && !T(g_has));
void v_set__insert(struct v_set *s, int v) __CPROVER_requires(s == &g_c->conds_ && v == g_key) __CPROVER_assigns(g_n, g_has)
  __CPROVER_ensures(T(g_has) && g_n == __CPROVER_old(g_n) + (T(__CPROVER_old(g_has)) ? 0 : 1));
'''
EXTERN = r'''
Token Sch_getToken(struct v_Sched *s)
__CPROVER_assigns()
__CPROVER_ensures(__CPROVER_return_value.id_ == g_me.id_ && __CPROVER_return_value.pos_ == g_me.pos_)
;
_Bool Sch_isCanceled(struct v_Sched *s)
__CPROVER_assigns()
__CPROVER_ensures(T(__CPROVER_return_value) == T(g_cancelled))
;
/* suspended: PRE my token is recorded where post() will find it */
void Sch_wait(struct v_Sched *s)
__CPROVER_requires(T(g_recorded) && g_waits == 0)
__CPROVER_assigns(g_waits, g_cancelled, g_n, g_has, WAIT_ASSIGNS)
__CPROVER_ensures(g_waits == 1 && (g_cancelled == 0 || g_cancelled == 1) && SET_OK)
;
_Bool Sch_resume(struct v_Sched *s, Token *t)
__CPROVER_requires(RESUME_REQ)
__CPROVER_assigns(g_resume_calls, g_resumed_waiter)
__CPROVER_ensures(g_resume_calls == __CPROVER_old(g_resume_calls) + 1 && g_resumed_waiter == 1)
;
'''
COND_REQ = '__CPROVER_requires(__CPROVER_is_fresh(self, sizeof(*self)) && SET_OK && g_me.id_ != 0 && (NULLTOK(self->wait_token_) || (self->wait_token_.id_ == g_waiter.id_ && self->wait_token_.pos_ == g_waiter.pos_)))\n'
SAT = '(T(__CPROVER_old(g_has)) && (self->logic_ != K_ALL || __CPROVER_old(g_n) == 1))'
SPEC_C = {
    ('prelude_early',): EARLY, ('prelude',): PRELUDE,
    ('after_protos',): SETSTUBS + EXTERN.replace('WAIT_ASSIGNS', 'g_c->wait_token_').replace('RESUME_REQ', '!NULLTOK(*t) && t->id_ == g_waiter.id_ && t->pos_ == g_waiter.pos_ && g_resume_calls == 0 && g_n == 0'),
    ('stub', 'Sch_wait'): True, ('stub', 'Sch_resume'): True, ('stub', 'Sch_getToken'): True, ('stub', 'Sch_isCanceled'): True,
    ('contract', 'Cond_post'): COND_REQ + r'''
__CPROVER_requires(v == g_key)
__CPROVER_assigns(g_c, g_n, g_has, g_resume_calls, g_resumed_waiter, self->wait_token_)
/* the value is consumed whether or not a routine waits yet */
__CPROVER_ensures(!T(g_has) && g_n == (!T(__CPROVER_old(g_has)) ? __CPROVER_old(g_n) : (self->logic_ == K_ALL ? __CPROVER_old(g_n) - 1 : 0)))
/* satisfied: the waiting routine, if any, is resumed exactly once and the wait token cleared */
__CPROVER_ensures(SAT ==> (NULLTOK(self->wait_token_) && g_resume_calls == (NULLTOK(__CPROVER_old(self->wait_token_)) ? 0 : 1)))
__CPROVER_ensures(!SAT ==> (g_resume_calls == 0 && self->wait_token_.id_ == __CPROVER_old(self->wait_token_.id_) && self->wait_token_.pos_ == __CPROVER_old(self->wait_token_.pos_)))
'''.replace('SAT', SAT),
    ('ghost', 'Cond_post', 'entry'): 'g_c = self; g_resume_calls = 0; g_resumed_waiter = 0;',
    ('contract', 'Cond_wait'): COND_REQ + r'''
__CPROVER_assigns(g_c, g_n, g_has, g_waits, g_cancelled, g_recorded, self->wait_token_)
__CPROVER_ensures((!NULLTOK(__CPROVER_old(self->wait_token_)) || __CPROVER_old(g_n) == 0) ==> (!T(__CPROVER_return_value) && g_waits == 0))       /* somebody waits already / nothing outstanding: no suspension */
__CPROVER_ensures((NULLTOK(__CPROVER_old(self->wait_token_)) && __CPROVER_old(g_n) > 0) ==> (g_waits == 1 && g_n == 0 && T(__CPROVER_return_value) == !T(g_cancelled)))
''',
    ('ghost', 'Cond_wait', 'entry'): 'g_c = self; g_waits = 0; g_recorded = 0;',
    ('ghost', 'Cond_wait', 'before_call:Sch_wait:1'): 'g_recorded = (self->wait_token_.id_ == g_me.id_ && self->wait_token_.pos_ == g_me.pos_);',
    ('contract', 'Cond_add'): COND_REQ + r'''
__CPROVER_requires(v == g_key)
__CPROVER_assigns(g_c, g_n, g_has)
__CPROVER_ensures(T(g_has) && g_n == __CPROVER_old(g_n) + (T(__CPROVER_old(g_has)) ? 0 : 1))
''',
    ('ghost', 'Cond_add', 'entry'): 'g_c = self;',
}
SPEC_B = {
    ('prelude_early',): EARLY, ('prelude',): PRELUDE + 'static size_t g_q0;\n',
    ('after_protos',): EXTERN.replace('WAIT_ASSIGNS', 'g_b->wait_tokens_.size').replace('RESUME_REQ', 'g_resume_calls < g_q0').replace('&& SET_OK)', '&& SET_OK && g_b->wait_tokens_.size < V_MAXSZ)'),
    ('stub', 'Sch_wait'): True, ('stub', 'Sch_resume'): True, ('stub', 'Sch_getToken'): True, ('stub', 'Sch_isCanceled'): True,
    ('contract', 'Bc_wait'): r'''
__CPROVER_requires(__CPROVER_is_fresh(self, sizeof(*self)) && self->wait_tokens_.size < V_MAXSZ - 1 && SET_OK)
__CPROVER_assigns(g_b, g_n, g_has, g_waits, g_cancelled, g_recorded, self->wait_tokens_.size, v_vec_cabinet_Token_cell)
__CPROVER_ensures(g_waits == 1 && T(__CPROVER_return_value) == !T(g_cancelled))
''',
    ('ghost', 'Bc_wait', 'entry'): 'g_b = self; g_waits = 0; g_recorded = 0;',
    ('ghost', 'Bc_wait', 'after_call:push_back:1'): 'g_recorded = 1;',
    ('contract', 'Bc_post'): r'''
__CPROVER_requires(__CPROVER_is_fresh(self, sizeof(*self)) && self->wait_tokens_.size < V_MAXSZ)
__CPROVER_assigns(g_b, g_q0, g_resume_calls, g_resumed_waiter, self->wait_tokens_.size, v_vec_cabinet_Token_cell)
__CPROVER_ensures(g_resume_calls == __CPROVER_old(self->wait_tokens_.size) && self->wait_tokens_.size == 0)        /* every waiter resumed once; queue emptied */
''',
    ('ghost', 'Bc_post', 'entry'): 'g_b = self; g_resume_calls = 0; g_q0 = self->wait_tokens_.size;',
    ('loop', 'Bc_post', 1): r'''
__CPROVER_assigns(__i1, g_resume_calls, g_resumed_waiter, v_vec_cabinet_Token_cell)
__CPROVER_loop_invariant(__i1 <= g_q0 && g_resume_calls == __i1 && __r1->size == g_q0 && __r1 == &self->wait_tokens_)
__CPROVER_decreases(g_q0 - __i1)
''',
}
H = lambda body: '\nvoid H(void)\n{\n' + body + '\n  __CPROVER_assert(0, "VACUITY-CANARY");\n}\n'
ST = ['Sch_wait', 'Sch_resume', 'Sch_getToken', 'Sch_isCanceled']
SETST = ['v_set__find', 'v_set__end', 'v_set__erase', 'v_set__empty', 'v_set__clear', 'v_set__insert']
def U(name, spec, emit, targets): return UnitSpec(name=name, tu=TU, filter='tbox::coroutine', more_filters=[(TU, 'cabinet::Token')], rename=R, spec=spec, emit=emit, targets=targets,
    plugins=[StdFunction(), StdVector(abstract={'struct cabinet_Token': '1'}), OpaqueString(), OpaqueTypes({r'^std::set<.*>$': 'v_set', r'^std::_Rb_tree_(const_)?iterator<.*>$': 'long:v_set_it'})],
    model_headers=['fn_model.h', 'vec_model.h', 'misc_model.h'],
    opaque_records={'tbox::coroutine::Scheduler': 'struct v_Sched'}, trusted=['drivers/coroutine_tu.cpp: includes + explicit instantiation Condition<int> (no logic)'])
UNITS = [
  U('co_condition', SPEC_C, [N + 'Condition<int>::post', N + 'Condition<int>::wait', N + 'Condition<int>::add'], [
      Target('post', H('  Cond *c; int v; Cond_post(c, v);'), enforce='Cond_post', replace=ST + SETST, clause='post: value consumed with or without a waiter; satisfied => the waiter (if any) resumed once, token cleared; otherwise nobody resumed'),
      Target('wait', H('  Cond *c; Cond_wait(c);'), enforce='Cond_wait', replace=ST + SETST, clause='wait: refuses when somebody waits or nothing is outstanding; token recorded before suspending; set cleared afterwards'),
      Target('add', H('  Cond *c; int v; Cond_add(c, v);'), enforce='Cond_add', replace=SETST, clause='add: value outstanding')]),
  U('co_broadcast', SPEC_B, [N + 'Broadcast::wait', N + 'Broadcast::post'], [
      Target('wait', H('  Bc *b; Bc_wait(b);'), enforce='Bc_wait', replace=ST, clause='broadcast wait: token queued before suspending'),
      Target('post', H('  Bc *b; Bc_post(b);'), enforce='Bc_post', replace=ST, clause='broadcast post: every queued routine resumed exactly once, queue emptied')]),
]
def native_replay(u, t, o, w, workdir):
    import replay as rp
    L = '/repo/_build/modules'
    libs = ['%s/coroutine/libtbox_coroutine.a' % L, '%s/event/libtbox_event.a' % L, '%s/util/libtbox_util.a' % L, '%s/base/libtbox_base.a' % L, '-ldl']
    return rp.attempt('co_condition', [], os.path.join(workdir, 'replay'), [('scenario', [])], extra=libs)
