"""C11 — main::Module::~Module (modules/main/module.cpp): destruction of a module (sub)tree.

Decided: the destructor first brings the module down (cleanup(), its own contract in module.py: stop + cleanup hooks of the whole subtree in
reverse order, whatever state it is in), and only THEN destroys the children - every child exactly once, in registration order - and forgets
them; no child is destroyed before the subtree has been cleaned up (its hooks could not run any more).
Note (C++ semantics, not a contract): the destructor's cleanup() cannot reach the onStop/onCleanup overrides of the module being destroyed
itself - the derived part is gone; children are complete objects and do get theirs.
"""
import os, importlib.util
from verif import UnitSpec, Target, VERIF
_s = importlib.util.spec_from_file_location('c11_mod', os.path.join(VERIF, 'specs', 'C11', 'module.py'))
m = importlib.util.module_from_spec(_s); _s.loader.exec_module(m)
R = dict(m.R); R.update({'main_Module_dtor': 'Mod_dtor'})
PRELUDE = r'''
typedef struct main_Module Mod; typedef struct main_Module_ModuleItem Item;
#define T(x) ((x) != 0)
static Mod *g_m; static size_t g_cleanups, g_deletes, g_n0; static size_t g_t;                 /* tracked child index */ static size_t g_deleted_t;
'''
EXTERN = r'''
void Mod_cleanup(Mod *self) __CPROVER_requires(self == g_m && g_cleanups == 0 && g_deletes == 0) __CPROVER_assigns(g_cleanups) __CPROVER_ensures(g_cleanups == 1);
/* a child goes away only after the subtree was cleaned up, each child once, in order */
void main_Module__delete(Mod *c) __CPROVER_requires(g_cleanups == 1 && g_deletes < g_n0 && c == g_m->children_.data[g_deletes].module_ptr) __CPROVER_assigns(g_deletes, g_deleted_t)
  __CPROVER_ensures(g_deletes == __CPROVER_old(g_deletes) + 1 && g_deleted_t == __CPROVER_old(g_deleted_t) + (__CPROVER_old(g_deletes) == g_t ? 1 : 0));
'''
SPEC = {('prelude_early',): m.EARLY, ('prelude',): PRELUDE, ('after_protos',): EXTERN, ('stub', 'Mod_cleanup'): True,
    ('contract', 'Mod_dtor'): r'''
__CPROVER_requires(__CPROVER_is_fresh(self, sizeof(*self)) && self->children_.size < V_MAXSZ && __CPROVER_is_fresh(self->children_.data, (self->children_.size ? self->children_.size : 1) * sizeof(Item)))
__CPROVER_assigns(g_m, g_cleanups, g_deletes, g_deleted_t, g_n0, __exc, v_mc_off, self->children_, __CPROVER_object_whole(self->children_.data))
__CPROVER_frees(self->children_.data)
__CPROVER_ensures(g_cleanups == 1 && g_deletes == g_n0 && self->children_.size == 0 && (g_t < g_n0 ==> g_deleted_t == 1))
''',
    ('ghost', 'Mod_dtor', 'entry'): 'g_m = self; g_cleanups = 0; g_deletes = 0; g_deleted_t = 0; g_n0 = self->children_.size;',
    ('loop', 'Mod_dtor', 1): r'''
__CPROVER_assigns(__i1, g_deletes, g_deleted_t)
__CPROVER_loop_invariant(__i1 <= __r1->size && __r1 == &self->children_ && __r1->size == g_n0 && g_deletes == __i1 && g_cleanups == 1 && g_deleted_t == (g_t < __i1 ? 1 : 0))
__CPROVER_decreases(__r1->size - __i1)
''',
}
H = m.H
U0 = m.UNITS[0]
UNITS = [UnitSpec(name='module_destroy', tu=U0.tu, filter='tbox::main', rename=R, spec=SPEC, clang_flags=['-include', 'tbox/base/json.hpp'],
    plugins=U0.plugins, model_headers=U0.model_headers, opaque_records=U0.opaque_records,
    emit=['tbox::main::Module::dtor'],
    targets=[Target('dtor', H('  Mod *m; Mod_dtor(m);'), enforce='Mod_dtor', replace=['Mod_cleanup', 'main_Module__delete'], timeout=200,
                    clause='destruction: the subtree is cleaned up first, then every child destroyed exactly once, in registration order, and forgotten')])]
