#include <tbox/flow/state_machine.h>
#include <cstdio>
#include <string>
using namespace tbox::flow;
int main() {
    std::string trace;
    StateMachine sm, sub;
    sub.newState(1, [&](Event){ trace += "enterA;"; }, [&](Event){ trace += "exitA;"; });
    sub.setInitState(1);
    sm.newState(1, [&](Event){ trace += "enterS;"; }, [&](Event){ trace += "exitS;"; });
    sm.setInitState(1);
    sm.setSubStateMachine(1, &sub);
    sm.start();
    sm.stop();
    printf("trace: %s\nsub running after parent stop: %d\n", trace.c_str(), (int)sub.isRunning());
    bool balanced = trace.find("exitA;") != std::string::npos && !sub.isRunning();
    if (!balanced) { printf("VIOLATION: state A of the sub-machine was entered but never exited by the time the machine was stopped\n"); return 1; }
    return 0;
}
