// explicit instantiation driver (no logic): makes clang instantiate every member of eventx::TimeoutMonitor<int>
#include <tbox/base/log.h>
#include <tbox/event/loop.h>
#include <tbox/event/timer_event.h>
#include <tbox/eventx/timeout_monitor.hpp>
template class tbox::eventx::TimeoutMonitor<int>;
