"""C04 — CommonLoop::onSignal (modules/event/common_loop_signal.cpp): the loop side of a delivery.

The process-wide handler writes the signal number (an int) into every listening loop's pipe; the loop's read event calls onSignal.
read(2) is a stub; the subscriber table is an oracle (is there a set for this number; the set hands out its elements, each once,
the tracked subscriber among them).  Decided:
 - the pipe is read in WHOLE signal numbers: the byte count asked of read() is a positive multiple of sizeof(int) that fits the local
   array (a count that is not a multiple splits a number across two reads and loses or corrupts deliveries);
 - every whole number read is looked up, in the order read, and EVERY subscriber of that number is called exactly once with it
   (tracked subscriber: visited exactly once per number that has a set);
 - the loop ends on EAGAIN / error / closed pipe, nothing is dispatched for a failed read.
"""
import os, importlib.util
from verif import UnitSpec, Target, VERIF
_s = importlib.util.spec_from_file_location('c04_loop', os.path.join(VERIF, 'specs', 'C04', 'loop_signal.py'))
m = importlib.util.module_from_spec(_s); _s.loader.exec_module(m)
R = dict(m.R); R.update({'event_CommonLoop_onSignal': 'CL_onSignal', 'event_SignalSubscribuer_onSignal': 'Sub_onSignal'})
PRELUDE = r'''
typedef struct event_CommonLoop Loop;
#define T(x) ((x) != 0)
static Loop *g_l; static v_handle g_sub;                    /* tracked subscriber */
static int g_nums[10]; static size_t g_got;                 /* what the last read delivered: g_got whole numbers */
static _Bool g_has_set, g_visited, g_cur_tracked;           /* oracle: the number has a subscriber set; iteration state of the copy being walked */
static size_t g_reads, g_lookups, g_calls_tracked, g_sets_walked; static int g_cur_signo;
'''
EXTERN = r'''
ssize_t v_sys_read(int fd, void *buf, size_t n)
__CPROVER_requires(fd == g_l->signal_read_fd_ && n >= sizeof(int) && n % sizeof(int) == 0 && n <= 40 && __CPROVER_w_ok(buf, n))      /* whole signal numbers only */
__CPROVER_assigns(g_reads, g_got, v_errno, __CPROVER_object_whole(buf))
__CPROVER_ensures(g_reads == __CPROVER_old(g_reads) + 1 && __CPROVER_return_value >= -1 && __CPROVER_return_value <= (ssize_t)n)
__CPROVER_ensures(__CPROVER_return_value > 0 ==> (__CPROVER_return_value % sizeof(int) == 0 && g_got == (size_t)__CPROVER_return_value / sizeof(int)))   /* the writer writes whole ints atomically */
;
long v_submap__find(struct v_submap *mp, int signo)
__CPROVER_requires(mp == &g_l->all_signals_subscribers_ && g_lookups < g_got)
__CPROVER_assigns(g_lookups, g_cur_signo, g_has_set)
__CPROVER_ensures(g_lookups == __CPROVER_old(g_lookups) + 1 && g_cur_signo == signo && (g_has_set == 0 || g_has_set == 1) && (__CPROVER_return_value != 0) == T(g_has_set))
;
long v_submap__end(struct v_submap *mp) __CPROVER_assigns() __CPROVER_ensures(__CPROVER_return_value == 0);
struct v_subset *v_map_it_second(long it) __CPROVER_requires(it != 0) __CPROVER_assigns() __CPROVER_ensures(__CPROVER_return_value != 0);
/* walking the copied set: every subscriber is handed out exactly once, the tracked one among them */
long v_subset__begin(struct v_subset *s) __CPROVER_requires(T(g_has_set)) __CPROVER_assigns(g_visited, g_cur_tracked, g_sets_walked)
  __CPROVER_ensures(g_sets_walked == __CPROVER_old(g_sets_walked) + 1 && (g_cur_tracked == 0 || g_cur_tracked == 1) && __CPROVER_return_value != 0 && g_visited == g_cur_tracked);      /* non-empty: the tracked subscriber is a member */
long v_subset__next(struct v_subset *s, long it) __CPROVER_requires(it != 0) __CPROVER_assigns(g_visited, g_cur_tracked)
  __CPROVER_ensures((g_cur_tracked == 0 || g_cur_tracked == 1) && (g_visited == 0 || g_visited == 1))
  __CPROVER_ensures(__CPROVER_return_value == 0 ? (T(__CPROVER_old(g_visited)) && g_visited == 1 && g_cur_tracked == 0)                 /* the end comes only after every member, the tracked one included */
                                              : (T(g_cur_tracked) ? (!T(__CPROVER_old(g_visited)) && g_visited == 1) : g_visited == __CPROVER_old(g_visited)));
v_handle v_subset__deref(struct v_subset *s, long it) __CPROVER_requires(it != 0) __CPROVER_assigns() __CPROVER_ensures(__CPROVER_return_value != 0 && (T(g_cur_tracked) ? __CPROVER_return_value == g_sub : __CPROVER_return_value != g_sub));
void Sub_onSignal(v_handle sub, int signo)
__CPROVER_requires(sub != 0 && signo == g_cur_signo)
__CPROVER_assigns(g_calls_tracked)
__CPROVER_ensures(g_calls_tracked == __CPROVER_old(g_calls_tracked) + (sub == g_sub ? 1 : 0))
;
'''
SPEC = {
    ('prelude_early',): m.EARLY, ('prelude',): PRELUDE, ('after_protos',): EXTERN, ('stub', 'Sub_onSignal'): True,
    ('contract', 'CL_onSignal'): r'''
__CPROVER_requires(__CPROVER_is_fresh(self, sizeof(*self)) && g_sub != 0)
__CPROVER_assigns(g_l, g_got, g_reads, g_lookups, g_calls_tracked, g_sets_walked, g_cur_signo, g_has_set, g_visited, g_cur_tracked, v_errno)
/* every subscriber of every number that has a set was called exactly once per such number (tracked subscriber) */
__CPROVER_ensures(g_calls_tracked == g_sets_walked)
''',
    ('ghost', 'CL_onSignal', 'entry'): 'g_l = self; g_reads = 0; g_lookups = 0; g_calls_tracked = 0; g_sets_walked = 0; g_got = 0;',
    ('hoist_locals', 'CL_onSignal'): ('signo_array',),
    ('loop', 'CL_onSignal', 1): r'''
__CPROVER_assigns(g_got, g_reads, g_lookups, g_calls_tracked, g_sets_walked, g_cur_signo, g_has_set, g_visited, g_cur_tracked, v_errno, signo_array)
__CPROVER_loop_invariant(g_calls_tracked == g_sets_walked)
''',
    ('ghost', 'CL_onSignal', 'loop_body_start:1'): 'g_lookups = 0; g_got = 0;',
    ('loop', 'CL_onSignal', 2): r'''
__CPROVER_assigns(i, g_lookups, g_calls_tracked, g_sets_walked, g_cur_signo, g_has_set, g_visited, g_cur_tracked)
__CPROVER_loop_invariant(i <= num && num == g_got && num <= 10 && g_lookups == i && g_calls_tracked == g_sets_walked)
__CPROVER_decreases(num - i)
''',
    ('ghost', 'CL_onSignal', 'before_loop:3'): 'size_t g_c0 = g_calls_tracked;',
    ('loop', 'CL_onSignal', 3): r"""
__CPROVER_assigns(__it3, g_calls_tracked, g_visited, g_cur_tracked)
__CPROVER_loop_invariant((g_cur_tracked == 0 || g_cur_tracked == 1) && (g_visited == 0 || g_visited == 1) && (T(g_cur_tracked) ==> T(g_visited)) && (__it3 == 0 ==> (T(g_visited) && !T(g_cur_tracked))))
__CPROVER_loop_invariant(g_c0 + 1 == g_sets_walked && g_calls_tracked == g_c0 + ((T(g_visited) && !(__it3 != 0 && T(g_cur_tracked))) ? 1 : 0))
""",
}
H = m.H
U0 = m.UNITS[0]
UNITS = [UnitSpec(name='loop_onsignal', tu=m.TU, filter='tbox::event', more_filters=[(m.TU, f) for f in m.FILTERS], rename=R, spec=SPEC, emit=['tbox::event::CommonLoop::onSignal'],
    plugins=U0.plugins, model_headers=U0.model_headers, opaque_records=U0.opaque_records,
    targets=[Target('onSignal', H('  Loop *l; CL_onSignal(l);'), enforce='CL_onSignal', replace=['v_sys_read', 'v_submap__find', 'v_submap__end', 'v_map_it_second', 'v_subset__begin', 'v_subset__next', 'v_subset__deref', 'Sub_onSignal'], timeout=300,
                    clause='loop side of a delivery: the pipe is read in whole signal numbers; every number read is looked up and every subscriber of it called exactly once with it')])]
def native_replay(u, t, o, w, workdir):
    import replay as rp
    L = '/repo/_build/modules'
    libs = ['%s/event/libtbox_event.a' % L, '%s/util/libtbox_util.a' % L, '%s/base/libtbox_base.a' % L, '-ldl']
    return rp.attempt('signal_burst', ['modules/event/common_loop_signal.cpp'], os.path.join(workdir, 'replay'), [('scenario', ['epoll']), ('scenario', ['select'])], extra=libs)
