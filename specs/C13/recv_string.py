"""C13 — terminal::Terminal::Impl::onRecvString (modules/terminal/impl/terminal.cpp): from received characters to editor key events.

The key scanner (own contracts: unit key_scanner) and the eleven editor handlers (own contracts: unit key_events) are stubs with a
typestate: the scanner must have been (re)started since the last completed key before a byte is fed to it, and a completed key must be
dispatched before the next byte.  Decided for every string and every sequence of scanner answers:
 - unknown session token: refused, nothing is touched;
 - the scanner is started at the beginning of the segment and again after every completed key;
 - every completed key that has an editor action (printable, Enter, Backspace, Tab, arrows, Home, End, Delete) gets exactly that action,
   exactly once; keys without an action (ESC, function keys ...) are dropped;
 - at the end of a segment that stops inside a sequence the scanner is asked once (stop): a bare CR is an Enter.
Not decided: what the scanner makes of a sequence that is cut by a segment boundary or of a bare CR followed by other bytes in the same
segment (the scanner API cannot re-feed a byte: see DESIGN I.6 remarks).
"""
import os
from verif import UnitSpec, Target
from plugins import StdFunction, StdVector, OpaqueString, StringStreamSink, OpaqueTypes
TU = 'modules/terminal/impl/terminal.cpp'
PFX = 'terminal_Terminal_Impl_'
KEYS = ['onChar', 'onEnterKey', 'onBackspaceKey', 'onTabKey', 'onMoveUpKey', 'onMoveDownKey', 'onMoveLeftKey', 'onMoveRightKey', 'onHomeKey', 'onEndKey', 'onDeleteKey']
SC = 'terminal_KeyEventScanner_'
R = {PFX + 'onRecvString': 'Term_onRecvString', SC + 'start': 'Scan_start', SC + 'next': 'Scan_next', SC + 'stop': 'Scan_stop', SC + 'result': 'Scan_result'}
R.update({PFX + k: 'Term_' + k for k in KEYS})
STUBS = ['cabinet_Cabinet_tbox_terminal_SessionContext__at', 'Scan_start', 'Scan_next', 'Scan_stop', 'Scan_result'] + ['Term_' + k for k in KEYS]
PRELUDE = r"""
typedef struct terminal_Terminal_Impl Term; typedef struct terminal_SessionContext Sess;
#define T(x) ((x) != 0)
#define ST(x) terminal_KeyEventScanner_Status_##x
#define RS(x) terminal_KeyEventScanner_Result_##x
static Sess *g_sess; static _Bool g_found;
static _Bool g_started;            /* the scanner is in its initial state or inside a sequence (start() was called after the last completed key) */
static _Bool g_pending;            /* a key was completed (kEnsure) and has not been dispatched yet */
static int g_result; static size_t g_starts, g_handled, g_ensured, g_stops;
#define HAS_HANDLER(r) ((r) == RS(kPrintable) || (r) == RS(kEnter) || (r) == RS(kBackspace) || (r) == RS(kTab) || (r) == RS(kMoveUp) || (r) == RS(kMoveDown) || (r) == RS(kMoveLeft) || (r) == RS(kMoveRight) || (r) == RS(kHome) || (r) == RS(kEnd) || (r) == RS(kDelete))
"""
def HANDLER(name, res, extra=''):
    return ('void Term_%s(Term *self, Sess *s%s) __CPROVER_requires(s == g_sess && T(g_pending) && g_result == RS(%s)) __CPROVER_assigns(g_handled, g_pending) '
            '__CPROVER_ensures(g_handled == __CPROVER_old(g_handled) + 1 && !T(g_pending));\n') % (name, extra, res)
EXTERN = r"""
Sess *cabinet_Cabinet_tbox_terminal_SessionContext__at(struct v_scab *c, struct cabinet_Token *t) __CPROVER_assigns() __CPROVER_ensures(__CPROVER_return_value == (T(g_found) ? g_sess : (Sess *)0));
void Scan_start(struct v_Scanner *sc) __CPROVER_requires(sc == &g_sess->key_event_scanner_ && !T(g_pending)) __CPROVER_assigns(g_started, g_starts) __CPROVER_ensures(T(g_started) && g_starts == __CPROVER_old(g_starts) + 1);
/* a byte is only fed to a scanner that was (re)started after the last completed key; a completed key must be dispatched before the next byte */
int Scan_next(struct v_Scanner *sc, uint8_t byte) __CPROVER_requires(sc == &g_sess->key_event_scanner_ && T(g_started) && !T(g_pending)) __CPROVER_assigns(g_started, g_pending, g_result, g_ensured)
  __CPROVER_ensures(__CPROVER_return_value >= ST(kUnsure) && __CPROVER_return_value <= ST(kFail) && g_result >= RS(kNone) && g_result <= RS(kF12))
  __CPROVER_ensures(__CPROVER_return_value == ST(kEnsure) ? (!T(g_started) && g_pending == HAS_HANDLER(g_result) && g_ensured == __CPROVER_old(g_ensured) + (HAS_HANDLER(g_result) ? 1 : 0))
                                                        : (T(g_started) && !T(g_pending) && g_ensured == __CPROVER_old(g_ensured)));
int Scan_result(struct v_Scanner *sc) __CPROVER_requires(sc == &g_sess->key_event_scanner_) __CPROVER_assigns() __CPROVER_ensures(__CPROVER_return_value == g_result);
/* end of the segment inside a sequence: a bare CR counts as Enter, a bare ESC as ESC */
int Scan_stop(struct v_Scanner *sc) __CPROVER_requires(sc == &g_sess->key_event_scanner_ && T(g_started) && !T(g_pending) && g_stops == 0) __CPROVER_assigns(g_stops, g_pending, g_result, g_ensured)
  __CPROVER_ensures(g_stops == 1 && __CPROVER_return_value >= ST(kUnsure) && __CPROVER_return_value <= ST(kFail) && (g_result == RS(kEnter) || g_result == RS(kESC) || g_result == RS(kNone)))
  __CPROVER_ensures((__CPROVER_return_value == ST(kEnsure) && g_result == RS(kEnter)) ? (T(g_pending) && g_ensured == __CPROVER_old(g_ensured) + 1) : (!T(g_pending) && g_ensured == __CPROVER_old(g_ensured) && (__CPROVER_return_value != ST(kEnsure) || g_result == RS(kESC))));
""" + HANDLER('onChar', 'kPrintable', ', char ch') + HANDLER('onEnterKey', 'kEnter') + HANDLER('onBackspaceKey', 'kBackspace') + HANDLER('onTabKey', 'kTab') + HANDLER('onMoveUpKey', 'kMoveUp') + HANDLER('onMoveDownKey', 'kMoveDown') + \
    HANDLER('onMoveLeftKey', 'kMoveLeft') + HANDLER('onMoveRightKey', 'kMoveRight') + HANDLER('onHomeKey', 'kHome') + HANDLER('onEndKey', 'kEnd') + HANDLER('onDeleteKey', 'kDelete')
SPEC = {('prelude_early',): 'struct v_TermImpl { char opaque; }; struct v_Path { char opaque; }; struct v_Conn { char opaque; }; struct v_Scanner { char opaque; }; struct v_Loop { char opaque; };\n',
    ('prelude',): PRELUDE, ('after_protos',): EXTERN,
    ('contract', 'Term_onRecvString'): r"""
__CPROVER_requires(__CPROVER_is_fresh(self, sizeof(*self)) && __CPROVER_is_fresh(g_sess, sizeof(Sess)) && __CPROVER_is_fresh(str, sizeof(*str)) && str->size < V_MAXSZ && (g_found == 0 || g_found == 1))
__CPROVER_assigns(g_started, g_pending, g_result, g_starts, g_handled, g_ensured, g_stops)
__CPROVER_ensures(T(__CPROVER_return_value) == T(g_found))
/* every completed key that has an editor action got exactly that action, once, before the next byte was looked at */
__CPROVER_ensures(g_handled == g_ensured && !T(g_pending))
__CPROVER_ensures(!T(g_found) ==> (g_starts == 0 && g_handled == 0))
""",
    ('ghost', 'Term_onRecvString', 'entry'): 'g_started = 0; g_pending = 0; g_starts = 0; g_handled = 0; g_ensured = 0; g_stops = 0;',
    ('loop', 'Term_onRecvString', 1): r"""
__CPROVER_assigns(__i1, status, g_started, g_pending, g_result, g_starts, g_handled, g_ensured)
__CPROVER_loop_invariant(__i1 <= __r1->size && __r1 == str && s == g_sess && T(g_started) && !T(g_pending) && g_handled == g_ensured && g_stops == 0 && status >= ST(kUnsure) && status <= ST(kFail))
__CPROVER_decreases(__r1->size - __i1)
""",
}
SPEC.update({('stub', n): True for n in STUBS})
H = lambda body: '\nvoid H(void)\n{\n' + body + '\n  __CPROVER_assert(0, "VACUITY-CANARY");\n}\n'
UNITS = [UnitSpec(name='recv_string', tu=TU, filter='tbox::terminal', more_filters=[(TU, 'tbox::cabinet')], rename=R, spec=SPEC,
    plugins=[StdVector(), OpaqueString(), StringStreamSink(), StdFunction(), OpaqueTypes({r'^(tbox::)?cabinet::Cabinet<.*>$': 'v_scab', r'^(tbox::)?ObjectPool<.*>$': 'v_pool', r'^std::map<.*>$': 'v_map', r'^std::set<.*>$': 'v_set'})], model_headers=['fn_model.h', 'vec_model.h', 'misc_model.h'],
    opaque_records={'tbox::event::Loop': 'struct v_Loop', 'Path': 'struct v_Path', 'tbox::terminal::Connection': 'struct v_Conn', 'tbox::terminal::KeyEventScanner': 'struct v_Scanner'},
    emit=['tbox::terminal::Terminal::Impl::onRecvString'],
    targets=[Target('onRecvString', H('  struct terminal_Terminal_Impl *t; struct cabinet_Token *st; struct v_str *s; Term_onRecvString(t, st, s);'), enforce='Term_onRecvString', replace=STUBS, clause='received characters -> key events: the scanner is (re)started before the first byte and after every completed key; every completed key with an editor action gets exactly that action, once, before the next byte; a bare CR at the end of the segment is an Enter')])]
