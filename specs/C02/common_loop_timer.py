"""C02 — event::CommonLoop timers (modules/event/common_loop_timer.cpp).  The heap is a size-only container with a heap TYPESTATE
(ghost g_heap: 0 = [begin,end) is a heap, 1 = a heap except for its last element) that the std heap algorithms and push_back/
pop_back/front move through; front() of a whole heap is the earliest deadline (std::pop_heap/push_heap/make_heap are the library's).

 handleExpiredTimers  the clock is read once; a timer's callback runs only if now >= its deadline (never early); the timer fired is the
                      heap minimum, taken out with pop_heap; one-shot (repeat == 1): removed from the heap, its token and record released,
                      BEFORE its callback runs; otherwise re-armed at deadline + interval (exactly one period later - no period is skipped
                      however late the loop woke) and pushed back, repeat counted down; the heap is whole again before user code runs
                      (callbacks add and delete timers); callback once per timer taken; cb_level_ balanced.
 addTimer             deadline == (clock read during this call) + interval: a fresh full interval; interval/repeat/callback stored; the
                      timer enters the heap (push_back + push_heap) and its cabinet token is returned.
 deleteTimer          unknown/stale token: nothing happens (late disable is a no-op).  Otherwise deadline forced to 0, make_heap, pop_heap,
                      pop_back: the timer leaves the heap and can no longer fire; its record is freed LATER through run() (it may be
                      deleting itself from its own callback), not here.
Not decided: getWaitTime (how long the loop sleeps), the std heap algorithms, Cabinet/ObjectPool (opaque), the real clock, TimerEventImpl (timer_event_impl.cpp).
"""
import os
from verif import UnitSpec, Target
from plugins import StdFunction, StdVector, Sync, Chrono, StringStreamSink, Syscalls, OpaqueString, OpaqueTypes
TU = 'modules/event/common_loop_timer.cpp'
C = 'tbox::event::CommonLoop::'
P = 'event_CommonLoop_'
R = {P + 'handleExpiredTimers': 'CL_handleExpiredTimers', P + 'addTimer': 'CL_addTimer', P + 'deleteTimer': 'CL_deleteTimer', P + 'getWaitTime': 'CL_getWaitTime',
     'event_GetCurrentSteadyClockMilliseconds': 'ClockMs', P + 'hasNextFunc': 'CL_hasNextFunc', P + 'run__tbox_event_Loop_Funcrr_Kstd_stringr': 'CL_run',
     'cabinet_Token_ctor__Ktbox_cabinet_Tokenr': 'Token_copy', 'cabinet_Token_assign': 'Token_assign'}
EARLY = r'''typedef unsigned long v_handle; struct v_LoopBase { char opaque; };
struct event_CommonLoop_Timer; static struct event_CommonLoop_Timer *g_front_ptr;      /* the timer front() yields */
static int g_heap;                                                                      /* heap typestate */
void v_heap_hook(int op);
#undef V_ABS_HOOK
#define V_ABS_HOOK(v, op) v_heap_hook(op)
'''
PRELUDE = r'''
typedef struct event_CommonLoop Loop; typedef struct event_CommonLoop_Timer Timer; typedef struct cabinet_Token Token;
#define T(x) ((x) != 0)
static Loop *g_l; static uint64_t g_now; static size_t g_clock_reads;
static Timer *g_back; static uint64_t g_exp0; static size_t g_pops, g_cb_calls; static _Bool g_oneshot_removed, g_is_oneshot;
static size_t g_cab_frees, g_pool_frees, g_pool_allocs, g_run_calls; static Timer *g_found, *g_new; static Token g_new_tok;
'''
EXTERN = r'''
void v_heap_hook(int op)
{
  if (op == 1) { __CPROVER_assert(g_heap == 0, "push_back: the heap is whole before a new element is appended"); g_heap = 1; }
  if (op == 2) { __CPROVER_assert(g_heap == 1, "pop_back: only the element that pop_heap moved to the back is removed"); g_heap = 0; }
  if (op == 3) { __CPROVER_assert(g_heap == 0, "front(): earliest deadline only if the whole range is a heap"); }
}
uint64_t ClockMs(void)
__CPROVER_assigns(g_clock_reads)
__CPROVER_ensures(__CPROVER_return_value == g_now && g_clock_reads == __CPROVER_old(g_clock_reads) + 1)
;
void v_pop_heap(struct v_vec_event_CommonLoop_Timerp *v)
__CPROVER_requires(g_heap == 0 && v == &g_l->timer_min_heap_ && v->size > 0)
__CPROVER_assigns(g_heap, g_back, g_pops)
__CPROVER_ensures(g_heap == 1 && g_back == g_front_ptr && g_pops == __CPROVER_old(g_pops) + 1)         /* the minimum is now the last element */
;
void v_push_heap(struct v_vec_event_CommonLoop_Timerp *v)
__CPROVER_requires(g_heap == 1 && v == &g_l->timer_min_heap_ && v->size > 0)
__CPROVER_assigns(g_heap)
__CPROVER_ensures(g_heap == 0)
;
void v_make_heap(struct v_vec_event_CommonLoop_Timerp *v)
__CPROVER_requires(v == &g_l->timer_min_heap_)
__CPROVER_assigns(g_heap, g_front_ptr)
__CPROVER_ensures(g_heap == 0 && (g_found != 0 ==> g_front_ptr == g_found))        /* after the deadline was forced to 0 the timer being deleted is the minimum (all live deadlines are > 0) */
;
Timer *v_cab__free(struct v_cab *c, Token *t)
__CPROVER_assigns(g_cab_frees)
__CPROVER_ensures(g_cab_frees == __CPROVER_old(g_cab_frees) + 1 && __CPROVER_return_value == g_found)
;
Token v_cab__alloc(struct v_cab *c, Timer *t)
__CPROVER_requires(t == g_new)
__CPROVER_assigns()
__CPROVER_ensures(__CPROVER_return_value.id_ == g_new_tok.id_ && __CPROVER_return_value.pos_ == g_new_tok.pos_)
;
void v_pool__free(struct v_pool *p, Timer *t)
__CPROVER_assigns(g_pool_frees)
__CPROVER_ensures(g_pool_frees == __CPROVER_old(g_pool_frees) + 1)
;
Timer *v_pool__alloc(struct v_pool *p)
__CPROVER_assigns(g_pool_allocs, g_new)
__CPROVER_ensures(__CPROVER_is_fresh(__CPROVER_return_value, sizeof(Timer)) && g_new == __CPROVER_return_value && g_pool_allocs == __CPROVER_old(g_pool_allocs) + 1)
;
unsigned long CL_run(Loop *self, struct v_function *f, struct v_str *w)
__CPROVER_requires(T(f->engaged))
__CPROVER_assigns(g_run_calls)
__CPROVER_ensures(g_run_calls == __CPROVER_old(g_run_calls) + 1)
;
/* a timer callback: user code; it may add and delete timers (any timer, also the one that is firing) */
void v_fn_call__void(struct v_function *f)
__CPROVER_requires(T(f->engaged) && g_now >= g_exp0)                                      /* never before the deadline */
__CPROVER_requires(g_heap == 0 && g_l->cb_level_ >= 1)                                    /* the heap is consistent whenever user code runs */
__CPROVER_requires(g_cb_calls + 1 == g_pops)                                              /* once per timer taken */
__CPROVER_requires(T(g_is_oneshot) ==> T(g_oneshot_removed))                              /* a one-shot is already gone when its callback runs */
__CPROVER_assigns(g_cb_calls, g_l->timer_min_heap_.size, *g_front_ptr)
__CPROVER_ensures(g_cb_calls == __CPROVER_old(g_cb_calls) + 1 && g_l->timer_min_heap_.size < V_MAXSZ && g_front_ptr->interval >= 1)
;
'''
LOOP_FRESH = '__CPROVER_requires(__CPROVER_is_fresh(self, sizeof(*self)) && self->timer_min_heap_.size < V_MAXSZ && g_heap == 0 && __CPROVER_is_fresh(g_front_ptr, sizeof(Timer)) && g_front_ptr->interval >= 1)\n'
SPEC = {
    ('prelude_early',): EARLY, ('prelude',): PRELUDE + 'static _Bool g_has_next;\n', ('after_protos',): EXTERN,
    ('stub', 'ClockMs'): True, ('stub', 'CL_run'): True,
    ('contract', 'CL_handleExpiredTimers'): LOOP_FRESH + r'''
__CPROVER_requires(self->cb_level_ >= 0 && self->cb_level_ < 1000)
__CPROVER_assigns(g_l, g_clock_reads, g_heap, g_back, g_exp0, g_pops, g_cb_calls, g_oneshot_removed, g_is_oneshot, g_cab_frees, g_pool_frees, self->cb_level_, self->timer_min_heap_.size, *g_front_ptr, v_vec_event_CommonLoop_Timerp_cell)
__CPROVER_ensures(g_heap == 0 && self->cb_level_ == __CPROVER_old(self->cb_level_) && g_clock_reads == 1)
__CPROVER_ensures(g_cab_frees == g_pool_frees)                                             /* a one-shot's token and record are released together */
''',
    ('ghost', 'CL_handleExpiredTimers', 'entry'): 'g_l = self; g_clock_reads = 0; g_pops = 0; g_cb_calls = 0; g_cab_frees = 0; g_pool_frees = 0; g_exp0 = 0; g_is_oneshot = 0; g_oneshot_removed = 0; int g_cb0 = self->cb_level_;',
    ('loop', 'CL_handleExpiredTimers', 1): r'''
__CPROVER_assigns(g_heap, g_back, g_exp0, g_pops, g_cb_calls, g_oneshot_removed, g_is_oneshot, g_cab_frees, g_pool_frees, self->cb_level_, self->timer_min_heap_.size, *g_front_ptr, v_vec_event_CommonLoop_Timerp_cell)
__CPROVER_loop_invariant(g_heap == 0 && self->cb_level_ == g_cb0 && self->timer_min_heap_.size < V_MAXSZ && g_cab_frees == g_pool_frees && g_front_ptr->interval >= 1 && g_clock_reads == 1)
''',
    ('ghost', 'CL_handleExpiredTimers', 'after_call:v_pop_heap:1'): 'g_exp0 = t->expired; g_is_oneshot = (t->repeat == 1); g_oneshot_removed = 0; g_cb_calls = g_pops - 1; __CPROVER_assert(t == g_back, "the timer examined is the one pop_heap took out");',
    ('ghost', 'CL_handleExpiredTimers', 'after_call:pop_back:1'): 'g_oneshot_removed = 1;',
    ('ghost', 'CL_handleExpiredTimers', 'before_call:v_push_heap:1'): '__CPROVER_assert(t == g_back && t->expired == g_exp0 + t->interval, "re-armed exactly one period after the deadline that fired (no period skipped, no restart from now)");',
    ('contract', 'CL_addTimer'): LOOP_FRESH + r'''
__CPROVER_requires(__CPROVER_is_fresh(cb, sizeof(*cb)) && T(cb->engaged))
__CPROVER_assigns(g_l, g_clock_reads, g_heap, g_pool_allocs, g_new, self->timer_min_heap_.size)
__CPROVER_ensures(g_clock_reads == 1 && g_pool_allocs == 1 && g_heap == 0 && self->timer_min_heap_.size == __CPROVER_old(self->timer_min_heap_.size) + 1)
__CPROVER_ensures(g_new->expired == g_now + interval && g_new->interval == interval && g_new->repeat == repeat && g_new->cb.target == cb->target && T(g_new->cb.engaged))
__CPROVER_ensures(__CPROVER_return_value.id_ == g_new_tok.id_ && __CPROVER_return_value.pos_ == g_new_tok.pos_ && g_new->token.id_ == g_new_tok.id_ && g_new->token.pos_ == g_new_tok.pos_)
''',
    ('ghost', 'CL_addTimer', 'entry'): 'g_l = self; g_clock_reads = 0; g_pool_allocs = 0;',
    ('contract', 'CL_deleteTimer'): LOOP_FRESH + r'''
#ifdef V_STALE
__CPROVER_requires(__CPROVER_is_fresh(token, sizeof(*token)) && g_found == 0)
__CPROVER_assigns(g_l, g_heap, g_back, g_pops, g_front_ptr, g_cab_frees, g_run_calls, self->timer_min_heap_.size)
__CPROVER_ensures(self->timer_min_heap_.size == __CPROVER_old(self->timer_min_heap_.size) && g_run_calls == 0)            /* stale token: no-op */
#else
__CPROVER_requires(__CPROVER_is_fresh(token, sizeof(*token)) && __CPROVER_is_fresh(g_found, sizeof(Timer)) && self->timer_min_heap_.size > 0)
__CPROVER_assigns(g_l, g_heap, g_back, g_pops, g_front_ptr, g_cab_frees, g_run_calls, self->timer_min_heap_.size, g_found->expired)
__CPROVER_ensures(self->timer_min_heap_.size == __CPROVER_old(self->timer_min_heap_.size) - 1 && g_run_calls == 1 && g_back == g_found && g_found->expired == 0)
#endif
__CPROVER_ensures(g_cab_frees == 1 && g_heap == 0 && g_pool_frees == __CPROVER_old(g_pool_frees))                      /* never freed here: the timer may be deleting itself */
''',
    ('ghost', 'CL_deleteTimer', 'entry'): 'g_l = self; g_cab_frees = 0; g_run_calls = 0;',
}
H = lambda body: '\nvoid H(void)\n{\n' + body + '\n  __CPROVER_assert(0, "VACUITY-CANARY");\n}\n'
def COMMON(): return dict(tu=TU, filter='tbox::event', more_filters=[(TU, 'cabinet::Token')], rename=R, spec=SPEC,
    plugins=[StdFunction(), StdVector(abstract={'struct event_CommonLoop_Timer *': 'x == g_front_ptr', 'struct event_CommonLoop_RunFuncItem': '1'}), Sync(), Chrono(abstract_time=True), StringStreamSink(), Syscalls(), OpaqueString(),
             OpaqueTypes({r'^std::map<.*>$': 'v_map', r'^std::set<.*>$': 'v_set', r'^std::thread::id$': 'v_tid', r'^(tbox::)?cabinet::Cabinet<.*>$': 'v_cab', r'^(tbox::)?ObjectPool<.*>$': 'v_pool'})],
    model_headers=['fn_model.h', 'vec_model.h', 'sync_model.h', 'misc_model.h'],
    opaque_records={'tbox::event::FdEvent': 'handle:v_handle', 'tbox::event::TimerEvent': 'handle:v_handle', 'tbox::event::SignalSubscribuer': 'handle:v_handle', 'tbox::event::Loop': 'struct v_LoopBase'})
ST = ['ClockMs', 'v_pop_heap', 'v_push_heap', 'v_make_heap', 'v_cab__free', 'v_cab__alloc', 'v_pool__free', 'v_pool__alloc', 'CL_hasNextFunc', 'CL_run', 'v_fn_call__void']
UNITS = [UnitSpec(name='loop_timer', emit=[C + 'handleExpiredTimers', C + 'addTimer', C + 'deleteTimer'], targets=[
    Target('handleExpiredTimers', H('  Loop *l; CL_handleExpiredTimers(l);'), enforce='CL_handleExpiredTimers', replace=['ClockMs', 'v_pop_heap', 'v_push_heap', 'v_cab__free', 'v_pool__free', 'v_fn_call__void'], timeout=300, sat='cadical', object_bits=12,
           clause='expired timers: never early; one-shot removed and released before its callback; persistent re-armed exactly one period later; heap whole before user code; callback once per timer'),
    Target('addTimer', H('  Loop *l; uint64_t i, r; struct v_function *cb; CL_addTimer(l, i, r, cb);'), enforce='CL_addTimer', replace=['ClockMs', 'v_push_heap', 'v_cab__alloc', 'v_pool__alloc'], timeout=900,
           clause='enable: deadline = fresh clock reading + interval; timer enters the heap; token returned'),
    Target('deleteTimer', H('  Loop *l; Token *t; CL_deleteTimer(l, t);'), enforce='CL_deleteTimer', replace=['v_pop_heap', 'v_make_heap', 'v_cab__free', 'CL_run'], timeout=300,
           clause='disable of a live timer: it leaves the heap at once (deadline 0, make_heap, pop_heap, pop_back) and is freed later through run()'),
    Target('deleteTimer_stale', H('  Loop *l; Token *t; CL_deleteTimer(l, t);'), enforce='CL_deleteTimer', replace=['v_pop_heap', 'v_make_heap', 'v_cab__free', 'CL_run'], timeout=300, defines=['V_STALE'],
           clause='disable with a stale token (timer already fired/deleted): no-op'),
], **COMMON())]
