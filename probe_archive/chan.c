#include <stddef.h>
#include <stdbool.h>
/* abstract state of Channel<int>: queue length, waiter-token queue length; ghost: W = routines suspended in >> not yet resumed,
   R = routines resumed (made ready) but not yet run */
struct Chan { size_t q_len; size_t tok_len; /* ghost */ size_t W; size_t R; };
#define INV(c) ((c)->tok_len == (c)->W && ((c)->q_len > 0 && (c)->W > 0 ==> (c)->R > 0) && (c)->q_len < 1000 && (c)->W < 1000 && (c)->R < 1000)
_Bool nondet_bool(void);
_Bool g_canceled;
/* models */
void sch_resume_front(struct Chan *c) { /* token_.front(); pop(); sch_.resume(t) */ c->tok_len--; c->W--; c->R++; }
void sch_wait(struct Chan *c)
/* yield point: other routines run; they keep INV; caller returns only when it was resumed (it is one of R) or cancelled */
__CPROVER_requires(INV(c))
__CPROVER_assigns(*c, g_canceled)
__CPROVER_ensures(INV(c))
;
/* operator<< as extracted */
void Channel_send(struct Chan *c)
__CPROVER_requires(__CPROVER_is_fresh(c, sizeof(*c)) && INV(c) && c->q_len < 900)
__CPROVER_assigns(*c)
__CPROVER_ensures(INV(c) && c->q_len == __CPROVER_old(c->q_len) + 1)
{
    if (c->q_len == 0 && c->tok_len != 0) {
        sch_resume_front(c);
    }
    c->q_len++;           /* queue_.push(value) */
}
/* the tail of operator>> after the wait loop: I was resumed (R counted me), queue non-empty */
void Channel_recv_after_wakeup(struct Chan *c)
__CPROVER_requires(__CPROVER_is_fresh(c, sizeof(*c)) && INV(c) && c->q_len > 0 && c->R > 0)
__CPROVER_assigns(*c)
__CPROVER_ensures(INV(c))
{
    c->R--;               /* I am running now */
    c->q_len--;           /* out = queue_.front(); queue_.pop(); */
}
void harness(void) { struct Chan *c; if (nondet_bool()) Channel_send(c); else Channel_recv_after_wakeup(c); }
