#include <stddef.h>
#include <stdint.h>
#include <stdbool.h>
typedef long ssize_t;
struct Buffer { uint8_t *buffer_ptr_; size_t buffer_size_; size_t read_index_; size_t write_index_; };
enum BState { kEmpty, kInited, kRunning };
struct BufferedFd { int state_; struct Buffer send_buff_; void *sp_write_event_; int fd_;
   /* ghost */ _Bool g_write_armed; };
#define MAXSZ ((size_t)1<<40)
#define EAGAIN 11
size_t g_A, g_X;            /* bytes accepted by send() so far / bytes put on the wire so far */
size_t g_k; uint8_t g_v;    /* tracked absolute stream position and its byte (defined once k < A) */
_Bool g_wire_ok;            /* k < X ==> wire[k] == g_v */
size_t g_o; uint8_t g_ov;   /* per-call tracked offset handed to Buffer contracts */
int v_errno;
#define BWF(b) ((b)->read_index_ <= (b)->write_index_ && (b)->write_index_ <= (b)->buffer_size_ && (b)->buffer_size_ < MAXSZ && \
                ((b)->buffer_size_ == 0) == ((b)->buffer_ptr_ == NULL))
#define READABLE(b) ((b)->write_index_ - (b)->read_index_)
#define AT(b,o) ((b)->buffer_ptr_[(b)->read_index_ + (o)])
#define SINV(s) (BWF(&(s)->send_buff_) && g_X <= g_A && g_X + READABLE(&(s)->send_buff_) == g_A && g_A < MAXSZ && g_wire_ok && \
   ((g_k >= g_X && g_k < g_A) ==> AT(&(s)->send_buff_, g_k - g_X) == g_v))
#define ARM(s) (((s)->state_ == kRunning && READABLE(&(s)->send_buff_) > 0) ==> (s)->g_write_armed)

/* util::Buffer::append — abstract contract (the one C07 proves), seen by callers */
size_t Buffer_append(struct Buffer *b, const void *p, size_t n)
__CPROVER_requires(__CPROVER_rw_ok(b, sizeof(*b)) && BWF(b) && (b->buffer_size_ == 0 || __CPROVER_rw_ok(b->buffer_ptr_, b->buffer_size_)) && n < MAXSZ && READABLE(b) + n < MAXSZ && (n == 0 || __CPROVER_r_ok(p, n)))
__CPROVER_requires(g_o < READABLE(b) ==> AT(b, g_o) == g_ov)
__CPROVER_requires((g_o >= READABLE(b) && g_o < READABLE(b) + n) ==> ((const uint8_t*)p)[g_o - READABLE(b)] == g_ov)
__CPROVER_assigns(*b; b->buffer_ptr_ != NULL: __CPROVER_object_whole(b->buffer_ptr_))
__CPROVER_ensures(__CPROVER_return_value == n && BWF(b))
__CPROVER_ensures(b->buffer_size_ > 0 ==> __CPROVER_is_fresh(b->buffer_ptr_, b->buffer_size_))
__CPROVER_ensures(READABLE(b) == __CPROVER_old(b->write_index_) - __CPROVER_old(b->read_index_) + n)
__CPROVER_ensures(g_o < READABLE(b) ==> AT(b, g_o) == g_ov)
;
/* Fd::write model: any result; ghost wire */
ssize_t Fd_write(int fd, const void *p, size_t n)
__CPROVER_requires(n == 0 || __CPROVER_r_ok(p, n))
__CPROVER_requires(g_o < n ==> ((const uint8_t*)p)[g_o] == g_ov)     /* caller says which byte of p is the tracked one */
__CPROVER_assigns(g_X, g_wire_ok, v_errno)
__CPROVER_ensures(__CPROVER_return_value >= -1 && (__CPROVER_return_value < 0 || (size_t)__CPROVER_return_value <= n))
__CPROVER_ensures(g_X == __CPROVER_old(g_X) + (__CPROVER_return_value > 0 ? (size_t)__CPROVER_return_value : 0))
__CPROVER_ensures(g_wire_ok == __CPROVER_old(g_wire_ok))   /* the byte written at wire position old X + g_o is p[g_o] == g_ov */
;
void FdEvent_enable_write(struct BufferedFd *s)
__CPROVER_requires(__CPROVER_rw_ok(s, sizeof(*s)))
__CPROVER_assigns(s->g_write_armed)
__CPROVER_ensures(s->g_write_armed)
;
/* BufferedFd::send as cxx2c would print it (logging dropped), with ghost statements from the spec marked G: */
_Bool BufferedFd_send(struct BufferedFd *self, const void *data_ptr, size_t data_size)
__CPROVER_requires(__CPROVER_is_fresh(self, sizeof(*self)) && data_size < MAXSZ && g_A + data_size < MAXSZ)
__CPROVER_requires(self->send_buff_.buffer_size_ < MAXSZ && (self->send_buff_.buffer_size_ == 0 ? self->send_buff_.buffer_ptr_ == NULL : __CPROVER_is_fresh(self->send_buff_.buffer_ptr_, self->send_buff_.buffer_size_)))
__CPROVER_requires(data_size == 0 || __CPROVER_is_fresh(data_ptr, data_size))
__CPROVER_requires(SINV(self) && ARM(self) && self->state_ >= kEmpty && self->state_ <= kRunning)
__CPROVER_requires((g_k >= g_A && g_k < g_A + data_size) ==> ((const uint8_t*)data_ptr)[g_k - g_A] == g_v)  /* defines g_v for new bytes */
__CPROVER_assigns(self->send_buff_, self->g_write_armed, g_A, g_X, g_wire_ok, v_errno, g_o, g_ov;
                  self->send_buff_.buffer_ptr_ != NULL: __CPROVER_object_whole(self->send_buff_.buffer_ptr_))
__CPROVER_ensures(self->sp_write_event_ != NULL ==> __CPROVER_return_value)
__CPROVER_ensures((__CPROVER_return_value && v_errno == 0) ==> BWF(&self->send_buff_))
__CPROVER_ensures((__CPROVER_return_value && v_errno == 0) ==> (g_X <= g_A && g_X + READABLE(&self->send_buff_) == g_A))
__CPROVER_ensures((__CPROVER_return_value && v_errno == 0) ==> (g_A < MAXSZ && g_wire_ok))
__CPROVER_ensures((__CPROVER_return_value && v_errno == 0) ==> ((g_k >= g_X && g_k < g_A) ==> AT(&self->send_buff_, g_k - g_X) == g_v))
__CPROVER_ensures((__CPROVER_return_value && v_errno == 0) ==> g_A == __CPROVER_old(g_A) + data_size)
__CPROVER_ensures(__CPROVER_return_value ==> ARM(self))
{
    v_errno = 0; /* G */
    if (self->sp_write_event_ == NULL) {
        return 0;
    }
    if ((self->state_ != kRunning) || (READABLE(&self->send_buff_) > 0)) {
        g_o = g_k - g_X; g_ov = g_v; /* G: before 1st call of Buffer_append */
        Buffer_append(&self->send_buff_, data_ptr, data_size);
        g_A += data_size; /* G */
    } else {
        g_o = g_k - g_A; g_ov = g_v; /* G: before call of Fd_write (send_buff_ empty here, so X == A) */
        ssize_t wsize = Fd_write(self->fd_, data_ptr, data_size);
        if (wsize >= 0) {
            if (((size_t)(wsize)) < data_size) {
                const uint8_t *p_remain = ((const uint8_t *)(data_ptr)) + wsize;
                g_o = g_k - g_X; g_ov = g_v; /* G */
                Buffer_append(&self->send_buff_, p_remain, (data_size - wsize));
            }
            g_A += data_size; /* G */
            FdEvent_enable_write(self);
        } else {
            if (v_errno == EAGAIN) {
                g_o = g_k - g_X; g_ov = g_v; /* G */
                Buffer_append(&self->send_buff_, data_ptr, data_size);
                g_A += data_size; /* G */
                FdEvent_enable_write(self);
            } else {
                v_errno = 1; /* G: data dropped on hard error (documented TODO in the source) */
            }
        }
    }
    return 1;
}
void harness(void) { struct BufferedFd *s; const void *p; size_t n; BufferedFd_send(s, p, n); }
