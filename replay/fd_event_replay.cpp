// two events on ONE ready descriptor; the first one's callback disables (mode d) or destroys (mode x) the second one.
// The second event must not be called back in that pass (and destroying it must not lead to an invalid access).
#include <tbox/event/loop.h>
#include <tbox/event/fd_event.h>
#include <unistd.h>
#include <cstdio>
#include <string>
using namespace tbox::event;
int main(int argc, char **argv) {
    std::string engine = argc > 1 ? argv[1] : "epoll"; char mode = argc > 2 ? argv[2][0] : 'd';
    Loop *loop = Loop::New(engine.c_str());
    int a[2]; pipe(a);
    FdEvent *e1 = loop->newFdEvent(), *e2 = loop->newFdEvent();
    int calls2 = 0;
    e2->initialize(a[0], FdEvent::kReadEvent, Event::Mode::kPersist);
    e2->setCallback([&](short) { ++calls2; });
    e1->initialize(a[0], FdEvent::kReadEvent, Event::Mode::kOneshot);
    e1->setCallback([&](short) { if (mode == 'd') e2->disable(); else { delete e2; e2 = nullptr; } });
    e1->enable(); e2->enable();
    write(a[1], "x", 1);
    loop->exitLoop(std::chrono::milliseconds(30)); loop->runLoop();
    printf("[%s/%c] callbacks on the %s second event: %d\n", engine.c_str(), mode, mode == 'd' ? "disabled" : "destroyed", calls2);
    int bad = 0;
    if (calls2 != 0) { printf("VIOLATION: a %s event was called back\n", mode == 'd' ? "disabled" : "destroyed"); bad = 1; }
    delete e1; delete e2; delete loop;
    return bad;
}
