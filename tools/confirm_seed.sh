#!/bin/bash
# confirm_seed.sh <scratch worktree with _build> <mutant dir> <seed name> <ninja test targets...>
# Confirms: patch applies; tests of the given targets pass with it; run.sh fails with it and passes without it.
# On success copies patch.diff, demo, run.sh, meta.json to /verif/seeded/<seed name>/ and appends what was run to meta.json.
WT=$1; M=$2; NAME=$3; shift 3
set -u
git -C $WT checkout -q -- . || exit 2
bash $M/run.sh $WT >/tmp/scr/run_clean.log 2>&1; RC_CLEAN=$?
git -C $WT apply $M/patch.diff || { echo "patch does not apply"; exit 2; }
bash $M/run.sh $WT >/tmp/scr/run_mut.log 2>&1; RC_MUT=$?
TESTS_OK=1; TLOG=""
for t in "$@"; do
  cmake --build $WT/_build --target $t -j8 >/tmp/scr/build.log 2>&1 || { echo "build of $t failed"; tail -5 /tmp/scr/build.log; TESTS_OK=0; continue; }
  exe=$(find $WT/_build/modules -name $t -type f | head -1)
  if [ -z "$exe" ]; then TLOG="$TLOG $t: library target rebuilt (no test binary links it);"; continue; fi
  (cd $(dirname $exe) && timeout 900 $exe --gtest_filter='-DnsRequest.request_*:Uart.*:fs.MakeDirectory:SleepAction.*:LoopAction.SleepActionForever' >/tmp/scr/test_$t.log 2>&1); rc=$?
  res=$(grep -E "^\[  (PASSED|FAILED)" /tmp/scr/test_$t.log | tr '\n' ' ')
  TLOG="$TLOG $t: rc=$rc $res;"
  [ $rc -ne 0 ] && TESTS_OK=0
done
git -C $WT checkout -q -- .
echo "clean run.sh rc=$RC_CLEAN  mutated run.sh rc=$RC_MUT  tests_ok=$TESTS_OK [$TLOG]"
if [ $RC_CLEAN -eq 0 ] && [ $RC_MUT -ne 0 ] && [ $TESTS_OK -eq 1 ]; then
  mkdir -p /verif/seeded/$NAME && cp $M/patch.diff $M/run.sh $M/meta.json /verif/seeded/$NAME/ && cp $M/demo* /verif/seeded/$NAME/ 2>/dev/null
  python3 - "$NAME" "$TLOG" "$RC_CLEAN" "$RC_MUT" <<'PY'
import json,sys
p='/verif/seeded/%s/meta.json'%sys.argv[1]
m=json.load(open(p))
m['confirmed_by_me']={'tests':sys.argv[2].strip(),'run_sh_unchanged_rc':int(sys.argv[3]),'run_sh_with_patch_rc':int(sys.argv[4]),'how':'tools/confirm_seed.sh in a scratch worktree: patch applied, listed gtest binaries rebuilt and run (network/device/flaky-timing tests excluded), run.sh with and without the patch'}
json.dump(m,open(p,'w'),indent=1)
PY
  echo "CONFIRMED -> /verif/seeded/$NAME"
else
  echo "NOT CONFIRMED"; tail -5 /tmp/scr/run_mut.log
fi
