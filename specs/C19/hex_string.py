"""C19 — util::string::HexStrToRawData(hex_str, out_ptr, out_len) (modules/util/string.cpp): hex-string decoder into a caller's buffer.

The characters of the text are abstract (any value per position; std::string is a size-only model), hexCharToValue is the real code.
Decided for every text and every buffer: every write lies inside the out_len bytes of the caller's buffer (CBMC pointer checks against a
buffer of exactly that size), every character read lies inside the text, the result is min(out_len, size / 2) when all digits are valid,
an invalid digit ends the decoding with an exception and nothing outside the buffer touched; the loop terminates.
Not decided: the VALUE decoded (inverse of RawDataToHexStr: string content is not modelled), the std::vector overloads with delimiters.
"""
import os
from verif import UnitSpec, Target
from plugins import StdVector, OpaqueString, StringStreamSink
TU = 'modules/util/string.cpp'
R = {'util_string_HexStrToRawData__Kstd_stringr_voidp_uint16_t': 'HexStrToRawData', 'util_string_hexCharToValue': 'hexCharToValue'}
SPEC = {
    ('contract', 'HexStrToRawData'): r"""
__CPROVER_requires(__CPROVER_is_fresh(hex_str, sizeof(*hex_str)) && hex_str->size < V_MAXSZ && __exc == 0)
__CPROVER_requires(out_ptr == 0 || out_len == 0 || __CPROVER_is_fresh(out_ptr, out_len))          /* the caller's buffer has exactly the capacity it states */
__CPROVER_assigns(__exc; out_ptr != 0 && out_len != 0: __CPROVER_object_whole(out_ptr))
/* never more bytes than the buffer holds, never more than the text has digit pairs; an invalid digit ends the decoding by an exception (clean failure) */
__CPROVER_ensures(__CPROVER_return_value <= out_len && __CPROVER_return_value <= hex_str->size / 2)
__CPROVER_ensures(__exc == 0 ==> __CPROVER_return_value == (out_ptr == 0 ? 0 : (out_len < hex_str->size / 2 ? out_len : hex_str->size / 2)))      /* exactly the size the size rule advertises */
""",
    ('loop', 'HexStrToRawData', 1): r"""
__CPROVER_assigns(i, data_len, __exc, __CPROVER_object_whole(out_ptr))
__CPROVER_loop_invariant(i <= out_len && data_len == i && __exc == 0 && (i == 0 || (i - 1) * 2 + 1 < hex_str->size))
__CPROVER_decreases(out_len - i)
""",
}
H = lambda body: '\nvoid H(void)\n{\n  __exc = 0;\n' + body + '\n  __CPROVER_assert(0, "VACUITY-CANARY");\n}\n'
UNITS = [UnitSpec(name='hex_string', tu=TU, filter='tbox::util', rename=R, spec=SPEC,
    plugins=[StdVector(), OpaqueString(), StringStreamSink()], model_headers=['vec_model.h', 'misc_model.h'],
    emit=[('tbox::util::string::HexStrToRawData', 'const std::string &, void *, uint16_t')],
    targets=[Target('HexStrToRawData', H('  struct v_str *s; void *o; uint16_t n; HexStrToRawData(s, o, n);'), enforce='HexStrToRawData', replace=[], clause='hex decoder into a raw buffer: writes inside the stated capacity, reads inside the text, size rule min(capacity, digits / 2), invalid digit -> exception; terminates')])]
